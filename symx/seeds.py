"""symx.seeds — seed inputs regenerated from the working tree on every run (DESIGN §1.7)."""
from __future__ import annotations

import ast
import glob
import os
import random

from .load import REPO

XONSH_FORMS = [
    "a?.b?\n", "range?.index??\n", "x = p and a && b\n", "x = a && b and q\n", "x = a || b or c\n", "open(pf'/tmp/{n}', 'rb')\n", "pf'/tmp/{n}' / 'data.txt'\n",
    "x = pf'/a{b}'\nmode = 'w'\n", "$(echo a\nb)\n", "![git commit\n-m msg\n--amend]\n", "$(cp a@(x)b.c dest)\n", "$(tar czf @(name).tar.gz src)\n", "f!(f'{x},{y}', c)\n",
    "with! x:\n    s = \'\'\'a\n    b\n    c\'\'\'\n    y = s\nafter = 1\n", "x = $(gcc --include=@(incs\n))\n", "$A, () = $(ls), []\n",
    "$HOME\n", "${'HO' + 'ME'}\n", "$(ls -l)\n", "$[ls -l]\n", "!(ls -l)\n", "![ls -l]\n", "`.*\\.py`\n", "g`*.py`\n",
    "p'/tmp'\n", "pr'/tmp'\n", "pf'/tmp/{x}'\n", "x?\n", "x??\n", "a && b\n", "a || b\n", "$X = 1\n", "${'Y'} = 2\n",
    "for $I in range(3): pass\n", "with open(f) as $F: pass\n", "[1 for $J in y]\n", "del $X\n",
    "x = $(echo hi)\n", "f($X)[0]\n", "y = [$A, $(b c), !(d)]\n", "$(echo @(1 + 2))\n", "$(echo @$(which ls))\n",
    "$(echo $HOME/x)\n", "$(echo pre@(x)post)\n", "![echo hi > out.txt]\n", "![echo hi 2>&1]\n", "$(ls | grep x)\n",
    "![a && b]\n", "$(a; b)\n", "![cd /tmp]\n", "$(echo 'a b' \"c\")\n", "$(echo --opt=val -x 1e5x a.b/c ..)\n",
    "$(ls $(pwd))\n", "![sleep 1 &]\n", "f!(x, y)\n", "f!(a b, (1, 2), 'q,r')\n", "g!()\n", "$(echo! a  b )\n",
    "![bash -c ! echo 'x' ]\n", "with! ctx:\n    a b\n    c\nz = 1\n", "with! ctx as c: x y z\nq\n",
    "if $X:\n    $(ls)\nelse:\n    ![pwd]\n", "def f():\n    return $(whoami)\n", "lambda: $X\n", "print($X, `a`, p'b')\n",
    "x = 1 if $A else ![b]\n", "@(x)\n", "echo hi\n", "ls -la /tmp\n", "cd ..\n", "x = $(ls) + y?\n", "f?.g\n",
    "$(ls ${'a'})\n", "$[echo @(f'{x}')]\n", "a = !(ls) && !(pwd) || ![x]\n",
]

PY_SNIPPETS = [
    "x = 'abc\\\ndef'\n", 'print("one \\\n two", 3)\n', "match x:\n    case (*rest,): pass\n    case (a, *b): pass\n    case [*_]: pass\n", "match x:\n    case (a): pass\n    case (a | b): pass\n",
    "x = U'abc' u'd'\n", "y = B'b' Rb'c' bR'd'\n", "def f(*args: *Ts): pass\n", "x = a if b else c\nif x:\n    pass\n",
    'x = "pip\'s"\n', "y = 'say \"p\"'\n", 'z = "P\'m" + \'q"r\'\n', 'b = rb"it\'s"\n',
    "x = 1\n", "x += 1\n", "x: int = 1\n", "a, b = b, a\n", "a = b = c\n", "del a, b[0], c.d\n", "pass\n", "x = (1, 2,)\n",
    "x = [1, *a, 2]\n", "x = {1: 2, **d}\n", "x = {1, 2}\n", "x = a if b else c\n", "x = lambda a, b=1, *c, d, e=2, **f: 0\n",
    "f(a, *b, c=1, **d)\n", "a[1:2, ::3]\n", "a.b.c(d)[e]\n", "x = a < b <= c != d\n", "x = not a and b or c\n",
    "x = a + b * c ** -d // e % f @ g\n", "x = a | b ^ c & d << e >> f\n", "x = ~a\n", "x = a is not b\n", "x = a not in b\n",
    "x = [i for i in y if i if j]\n", "x = {k: v for k, v in y}\n", "x = (i async for i in y)\n", "x = await y\n",
    "x = yield\n", "x = yield from y\n", "x = (y := 1)\n", "x = 'a' 'bcd'\n", "x = 'a' \\\n  'b'\n", "x = b'a' b'b'\n",
    "x = '''a\nb'''\n", "x = 1_000 + 0x1F + 0o7 + 0b1 + 1.5e3 + 2j + .5 + 5.\n", "x = ...\n", "x = None, True, False\n",
    "import a.b as c, d\n", "from . import x\n", "from ...a.b import (c as d, e,)\n", "from a import *\n",
    "if a:\n    b\nelif c:\n    d\nelse:\n    e\n", "while a:\n    break\nelse:\n    continue\n",
    "for i, j in k:\n    pass\nelse:\n    pass\n", "async def f():\n    async for i in y: pass\n    async with a as b: pass\n",
    "try:\n    a\nexcept E as e:\n    b\nexcept (F, G):\n    c\nelse:\n    d\nfinally:\n    e\n", "try:\n    a\nexcept* E as e:\n    b\n",
    "with a as b, c as (d, e), f:\n    pass\n", "with (a as b, c as d):\n    pass\n",
    "def f(a, /, b: int = 1, *args: int, c, d=2, **kw) -> int:\n    '''doc'''\n    return a\n",
    "@dec\n@d.e(1)\nclass C(B, metaclass=M):\n    x: int\n    def m(self): pass\n", "class C[T]: pass\n", "def f[T: int, *Ts, **P](x: T) -> T: pass\n",
    "type X = int\n", "type X[T] = list[T]\n", "global a, b\n", "nonlocal a\n", "assert a, 'm'\n", "raise E from f\n", "raise\n", "return\n",
    "match x:\n    case 1 | 2: pass\n    case [a, *b]: pass\n    case {'k': v, **r}: pass\n    case C(a, b=c): pass\n    case _ if g: pass\n",
    "match x:\n    case -1j | 1+2j | 'a' 'b' | None | a.b: pass\n    case (a as b): pass\n    case []: pass\n",
    "x = [\n  1,  # c\n  2,\n]\n", "if a: b; c\n", "x = a\\\n  + b\n", "\tx = 1\n".lstrip("\t"), "if a:\n\tb\n", "x = 1 # comment\n# c2\n\ny = 2\n",
    "x=1;y=2;\n", "print(a, end='')\n", "x = a[b](c).d\n", "x = -a ** -b\n", "x = (yield)\n", "x = a, *b\n", "for x in *a, b: pass\n",
    "x = [*a]\n", "f(**a, b=1)\n", "f(a for a in b)\n", "x = a if b else c if d else e\n", "lambda: (yield)\n", "x = {**a, 'b': 1}\n",
    "x[a:b:c] = 1\n", "x[()] = 1\n", "a.b = c\n", "(a, b) = c\n", "[a, b] = c\n", "*a, b = c\n", "a = yield b\n", "x @= y\n", "x //= y\n", "x **= y\n",
    "x >>= y\n", "x <<= y\n", "x &= y\n", "x |= y\n", "x ^= y\n", "x %= y\n", "x /= y\n", "x -= y\n", "x *= y\n",
]


EXPRS = ["a for a in b if a for c in d", "a for a in b for c in d if c", "a async for a in b", "[a for a in b if a if c for d in e]", "*a for a in b", "a: b for a in c",
         "a", "a or b", "a and b", "not a", "a < b", "a == b != c", "a in b", "a not in b", "a is not b", "a | b", "a ^ b", "a & b", "a << b", "a + b", "a - b * c",
         "a @ b", "-a", "~a", "+a", "a ** b", "-a ** -b", "await a", "a.b", "a[b]", "a[b:c, ::d]", "a(b)", "a(b, *c, d=e, **f)", "a if b else c", "lambda: a", "lambda x, *y, z=1: x",
         "(yield)", "(yield a)", "(a := b)", "a, b", "*a, b", "(a, b)", "[a, b]", "[*a]", "{a: b}", "{**a}", "{a, b}", "[a for a in b]", "{a: b for a in c}", "(a for a in b if c)",
         "'s'", "'s' 't'", "b'b'", "1", "1.5j", "...", "None", "True", "a if b else c if d else e", "lambda: (yield)", "not a in b", "a < b < c", "a or b and not c"]
EXPR_CONTEXTS = ["f(@, e)\n", "f(@,)\n", "f(x, @)\n", "f(x=1, @)\n", "f(@ for q in r)\n", "f(**k, @)\n", "f!(@)\n", "$(echo @(@))\n", "x = [@, *y]\n", "class C(@, e): pass\n",
                 "@\n", "x = @\n", "x = y = @\n", "x: int = @\n", "x += @\n", "f(@)\n", "f(*@)\n", "f(**@)\n", "f(k=@)\n", "f(a, *@, b)\n", "t[@]\n", "t[*@]\n", "t[@:@]\n",
                 "[@]\n", "[*@]\n", "(@,)\n", "{@}\n", "{@: 1}\n", "{1: @}\n", "{**@}\n", "[@ for i in j]\n", "[i for i in @]\n", "[i for i in j if @]\n", "{@: @ for i in j}\n",
                 "if @: pass\n", "while @: pass\n", "for i in @: pass\n", "for i in *@, b: pass\n", "with @: pass\n", "with @ as w: pass\n", "assert @\n", "assert a, @\n", "return @\n",
                 "raise @\n", "raise a from @\n", "del t[@]\n", "t[@] = 1\n", "class C(@): pass\n", "class C(*@): pass\n", "class C(m=@): pass\n", "def f(p=@): pass\n",
                 "def f(*, p=@): pass\n", "def f() -> @: pass\n", "def f(p: @): pass\n", "@dec(@)\ndef f(): pass\n", "lambda p=@: 0\n", "x = @ if c else d\n", "x = c if @ else d\n",
                 "x = c if d else @\n", "x = not @\n", "x = -@\n", "x = @ ** 2\n", "x = 2 ** @\n", "x = @.attr\n", "x = @[0]\n", "x = @()\n", "x = await @\n", "x = yield @\n",
                 "x = (y := @)\n", "print(@, sep='')\n", "match @:\n    case 1: pass\n", "match x:\n    case 1 if @: pass\n", "x = @ or y\n", "x = y and @\n", "x = @ < y\n",
                 "x = y + @\n", "x = @ | y\n", "type X = @\n", "global_ = [@, @]\n", "x = f'{@}'\n", "except_ = (@)\n", "try:\n    pass\nexcept @: pass\n", "async def f():\n    async for i in @: pass\n"]


def expr_product():
    """every expression kind in every expression position (valid and invalid combinations alike; CPython judges)"""
    out = []
    for c in EXPR_CONTEXTS:
        for e in EXPRS:
            out.append(c.replace("@", e))
    return out


def concat_product(python_only=True, triples=0, rng=None):
    """implicit concatenation of every ordered pair (and sampled triples) of string-like atoms: each STRING kind of Sigma (all prefix
    letter-sets and cases) and each f-string opener of Sigma with four bodies (field only, literal+field, field+literal, literal only),
    plus multi-line forms; on one line and across lines inside brackets.  Valid and invalid combinations alike; CPython / the oracle judges"""
    from . import levelb
    atoms = []
    for t, s in levelb.sigma():
        if python_only and not levelb.is_python_kind(t, s):
            continue
        if t == "STRING":
            atoms.append(s)
        elif t == "FSTRING_START":
            q = s[-1]
            atoms += [s + "{x}" + q, s + "a{x}" + q, s + "{x}b" + q, s + "ab" + q]
    atoms += ["'''m\nn'''", "f'''m\n{x}n'''", "b'''m\nn'''", "'c\\\nd'"]
    atoms = list(dict.fromkeys(atoms))
    out = []
    for a in atoms:
        for b in atoms:
            out.append(f"x = {a} {b}\n")
            out.append(f"y = ({a}\n     {b})\n")
    if triples and rng is not None:
        for _ in range(triples):
            a, b, c = rng.choice(atoms), rng.choice(atoms), rng.choice(atoms)
            out.append(f"f({a} {b}\n  {c}, 1)\n")
    return out


def literal_product():
    from .litseeds import literal_product as lp
    return lp()


def _read(path):
    with open(path, encoding="utf-8") as f:
        return f.read()


def data_files(repo=None):
    repo = repo or REPO
    out = []
    for p in sorted(glob.glob(f"{repo}/tests/data/**/*", recursive=True)):
        if os.path.isfile(p) and p.endswith((".py", ".xsh")):
            try:
                out.append((os.path.relpath(p, repo), _read(p)))
            except (OSError, UnicodeDecodeError):
                pass
    return out


def split_statements(text):
    """top-level statements of a Python text (by CPython's ast); [] when it does not parse"""
    try:
        tree = ast.parse(text)
    except (SyntaxError, ValueError):
        return []
    lines = text.splitlines(keepends=True)
    out = []
    for st in tree.body:
        start = st.lineno - 1
        if getattr(st, "decorator_list", None):
            start = min(d.lineno for d in st.decorator_list) - 1
        seg = "".join(lines[start:st.end_lineno])
        if not seg.endswith("\n"):
            seg += "\n"
        out.append(seg)
    return out


def test_literals(repo=None, maxlen=200):
    """string constants of tests/*.py (inputs the suite parametrises over, valid and invalid)"""
    repo = repo or REPO
    out = []
    seen = set()
    for p in sorted(glob.glob(f"{repo}/tests/test_*.py")):
        try:
            tree = ast.parse(_read(p))
        except SyntaxError:
            continue
        for n in ast.walk(tree):
            if isinstance(n, ast.Constant) and isinstance(n.value, str) and 0 < len(n.value) <= maxlen and n.value not in seen:
                seen.add(n.value)
                out.append(n.value)
    return out


def xsh_lines(repo=None):
    repo = repo or REPO
    out = []
    for name, text in data_files(repo):
        if "/exprs/" in name or "/stmts/" in name or name.endswith(".xsh"):
            for ln in text.splitlines():
                if ln.strip() and not ln.startswith((" ", "\t", "#")):
                    out.append(ln + "\n")
    return out


def python_statements(repo=None, maxlen=400):
    out = []
    seen = set()
    for name, text in data_files(repo):
        if name.endswith(".py") and "/exprs/" not in name and "/stmts/" not in name:
            for st in split_statements(text):
                if len(st) <= maxlen and st not in seen:
                    seen.add(st)
                    out.append(st)
    for s in PY_SNIPPETS:
        if s not in seen:
            seen.add(s)
            out.append(s)
    return out


def all_seeds(repo=None):
    """(python statements, xonsh statements, raw test literals)"""
    return python_statements(repo), list(dict.fromkeys(XONSH_FORMS + xsh_lines(repo))), test_literals(repo)


def sample(rng: random.Random, items, n):
    items = list(items)
    if len(items) <= n:
        return items
    return rng.sample(items, n)


_GRAM_CACHE: dict = {}


def grammar_programs(which="reference", per_alt=4, seed=0, repo=None):
    """texts derived from CPython's own grammar (which='reference', /verif/ref/python311.gram) or from the working tree's
    tasks/xonsh.gram (which='xonsh'): several derivations per alternative of every rule (see symx/gramseeds.py)"""
    import sys as _sys
    repo = repo or REPO
    key = (which, per_alt, seed)
    if key in _GRAM_CACHE:
        return _GRAM_CACHE[key]
    from . import gramseeds
    old = _sys.getrecursionlimit()
    _sys.setrecursionlimit(max(old, 10000))
    try:
        path = os.path.join(os.path.dirname(os.path.dirname(os.path.abspath(__file__))), "ref", "python311.gram") if which == "reference" else f"{repo}/tasks/xonsh.gram"
        out = []
        seen = set()
        for k in range(per_alt):
            for _, _, text in gramseeds.programs(path, start="file", per_alt=1, seed=seed * 1000 + k, repo=repo, budget=4 + 5 * k):
                if text not in seen:
                    seen.add(text)
                    out.append(text)
    except Exception:  # noqa: BLE001  (a grammar the generator cannot read proposes nothing)
        out = []
    finally:
        _sys.setrecursionlimit(old)
    _GRAM_CACHE[key] = out
    return out
