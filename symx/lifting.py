"""symx.lifting — lift CPython's spans, observed on ONE concrete witness, to ALL layouts of a path class (DESIGN §1.8).

Our tree carries z3 terms as column attributes (level B, symbolic gaps).  CPython is opaque: it is run on the rendered
witness only.  Each CPython (line, col) is mapped to the token boundary of the witness that has this column, and z3 must
prove  PC ⇒ our_term == boundary_term.  A failed proof yields a model = another layout of the same token sequence on
which our span is not at that boundary; it is rendered and handed to the concrete C01 oracle for confirmation.
"""
from __future__ import annotations

import ast

import z3

from . import levelb, oracles
from .levelb import SymInt


def _pairs(a, b):
    """parallel walk of two structurally equal trees"""
    stack = [(a, b)]
    while stack:
        x, y = stack.pop()
        yield x, y
        for f in x._fields:
            vx, vy = getattr(x, f, None), getattr(y, f, None)
            if isinstance(vx, ast.AST) and isinstance(vy, ast.AST):
                stack.append((vx, vy))
            elif isinstance(vx, list) and isinstance(vy, list):
                for i, j in zip(vx, vy):
                    if isinstance(i, ast.AST) and isinstance(j, ast.AST):
                        stack.append((i, j))


def lift_spans(ex, st: levelb.Stream, ours, ref, model):
    """returns (n_obligations, n_syntactic, n_solver, failures[list of (attr, node type, cex model)], unknowns)"""
    # boundaries per line
    bounds = {}
    for r in range(len(st.rows)):
        lst = []
        for i in range(len(st.rows[r])):
            lst.append(st.starts[r][i])
            lst.append(st.ends[r][i])
        bounds[r + 1] = lst

    def val(t):
        if isinstance(t, int):
            return t
        return model.eval(t, model_completion=True).as_long()
    nob = nsyn = nsol = 0
    fails, unknown = [], 0
    seen = {}
    for x, y in _pairs(ours, ref):
        for la, ca in (("lineno", "col_offset"), ("end_lineno", "end_col_offset")):
            t = getattr(x, ca, None)
            if not isinstance(t, SymInt):
                continue
            ln = getattr(y, la)
            want = getattr(y, ca)
            nob += 1
            key = (t.e.get_id(), ln, want)
            if key in seen:
                continue
            seen[key] = True
            cands = [b for b in bounds.get(ln, []) if val(b) == want]
            if not cands:
                fails.append((ca, type(x).__name__, None, "no token boundary at CPython's column"))
                continue
            ok = False
            for b in cands:
                if not isinstance(b, int) and z3.eq(z3.simplify(t.e), z3.simplify(b)):
                    ok = True
                    nsyn += 1
                    break
            if ok:
                continue
            last = None
            for b in cands:
                nsol += 1
                status, cex = ex.prove(t.e == b)
                if status == "valid":
                    ok = True
                    break
                if status == "unknown":
                    unknown += 1
                last = cex
            if not ok:
                fails.append((ca, type(x).__name__, last, "span term is not this boundary for every layout"))
    return nob, nsyn, nsol, fails, unknown


def c01_extra(ex, rec, st, payload, kind, m, w, md):
    """extra step of a level-B harness: span lifting on accepting, ASCII, in-domain paths"""
    if kind != "ok" or not st.symbolic_gaps or not w.isascii():
        return
    ck, ref = oracles.cpy_parse(w, md)
    if ck != "ok" or oracles.py_domain(w):
        return
    from .chars import conc_copy
    inst = conc_copy(payload, m)
    if oracles.dump(inst) != oracles.dump(ref):
        return   # already reported by the c01 oracle on the witness
    nob, nsyn, nsol, fails, unknown = lift_spans(ex, st, payload, ref, m)
    rec["lift"] = (nob, nsyn, nsol)
    rec["queries"] = rec.get("queries", 0) + nsol
    if unknown:
        rec.setdefault("inconclusive", []).append({"what": "span lifting", "w": w, "unknown_queries": unknown})
    from .load import repo
    X = repo().real
    for ca, tn, cex, why in fails:
        if cex is None:
            rec.setdefault("inconclusive", []).append({"what": "span lifting: " + why, "w": w, "node": tn, "attr": ca})
            continue
        w2 = st.render(cex)
        v = oracles.c01(X, w2, md)
        if v is not None:
            rec["viol"].append({"oracle": "c01", "args": [w2, md], "kwargs": {}, "v": v})
        else:
            rec.setdefault("inconclusive", []).append({"what": "span lifting counterexample did not reproduce", "w": w2, "node": tn, "attr": ca})


def c11_extra(ex, rec, st, payload, kind, m, w, md):
    """level B: the raised SyntaxError's offsets are z3 terms; prove the C11 inequalities for every layout of the path class"""
    if kind not in ("SyntaxError", "IndentationError"):
        return
    e = payload
    from .load import repo
    X = repo().real
    nrows = len(st.rows)
    proved = 0

    def term(v):
        return v.e if isinstance(v, SymInt) else v
    ln = e.lineno
    off = e.offset
    claims = []
    if isinstance(off, SymInt) and isinstance(ln, int) and 1 <= ln <= nrows:
        linelen = st.ends[ln - 1][-1] + 1 if st.rows[ln - 1] else 1
        claims.append(("1 <= offset <= len(line)+1", z3.And(off.e >= 1, off.e <= linelen + 1)))
    eo, el = e.end_offset, e.end_lineno
    if isinstance(el, int) and isinstance(ln, int) and el == ln and (isinstance(off, SymInt) or isinstance(eo, SymInt)) and off is not None and eo is not None:
        claims.append(("end >= start", term(eo) >= term(off)))
    for name, c in claims:
        rec["queries"] = rec.get("queries", 0) + 1
        status, cex = ex.prove(c)
        if status == "valid":
            proved += 1
        elif status == "unknown":
            rec.setdefault("inconclusive", []).append({"what": "C11 " + name, "w": w})
        else:
            w2 = st.render(cex)
            v = oracles.c11(X, w2, md)
            if v is not None:
                rec["viol"].append({"oracle": "c11", "args": [w2, md], "kwargs": {}, "v": v})
            else:
                rec.setdefault("inconclusive", []).append({"what": "C11 counterexample did not reproduce: " + name, "w": w2})
    if proved:
        rec["symassert"] = proved
