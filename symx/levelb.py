"""symx.levelb — token-level proxies (DESIGN §1.3, §1.6 B).

A token's (type, string) pair is ONE finite-domain variable `kind_i` over the alphabet Σ that is derived from the
code on every run; its columns are z3 Int terms (start_{i+1} = end_i + gap_i, gap_i ≥ 0, end_i = start_i + len(kind_i)).
"""
from __future__ import annotations

import ast
import collections

import z3

from . import core
from .core import EngineError
from .load import repo

# ---------------------------------------------------------------- alphabet
_OPEN_CLASS = [
    ("NAME", "foo"), ("NAME", "bar"), ("NAME", "é"),
    ("NUMBER", "1"), ("NUMBER", "2.0"), ("NUMBER", "3j"), ("NUMBER", "0x1F"),
    ("STRING", "'s'"), ("STRING", '"d"'), ("STRING", "b'b'"), ("STRING", "u'u'"), ("STRING", "r'r'"),
    ("STRING", "p'p'"), ("STRING", "pr'q'"), ("STRING", "''"),
    ("FSTRING_START", "f'"), ("FSTRING_START", "pf'"), ("FSTRING_MIDDLE", "m"), ("FSTRING_END", "'"),
    ("SEARCH_PATH", "`x`"), ("SEARCH_PATH", "g`y`"), ("SEARCH_PATH", "@foo`z`"),
    ("ERRORTOKEN", "€"),
]
PY_XONSH_ONLY_OPS = {"!", "$", "?", "??", "||", "&&", "@(", "!(", "![", "$(", "$[", "${", "@$(", ">&"}


def _code_literals(rp):
    lits = set()
    for m in ("parser", "subheader", "tokenizer"):
        with open(f"{rp.path}/peg_parser/{m}.py", encoding="utf-8") as f:
            tree = ast.parse(f.read())
        for n in ast.walk(tree):
            if isinstance(n, ast.Constant) and isinstance(n.value, str) and 0 < len(n.value) <= 12:
                lits.add(n.value)
    return lits


_SIGMA = None


def sigma():
    """[(type_name, string)], derived from the current working tree"""
    global _SIGMA
    if _SIGMA is not None:
        return _SIGMA
    rp = repo()
    T = rp.real.tokenize
    P = rp.real.parser.XonshParser
    out = []
    seen = set()

    def add(t, s):
        if (t, s) not in seen:
            seen.add((t, s))
            out.append((t, s))
    for op in sorted(T.OPS):
        add("OP", op)
    for kw in sorted(set(P.KEYWORDS) | set(P.SOFT_KEYWORDS)):
        add("NAME", kw)
    # literals the code compares token strings against: keep those the tokenizer emits as one token
    for lit in sorted(_code_literals(rp)):
        from .oracles import safe_tokens
        toks = safe_tokens(rp.real, lit, 1.0)
        if toks is None:
            continue
        toks = [t for t in toks if t.type.name not in ("NEWLINE", "ENDMARKER", "NL")]
        if len(toks) == 1 and toks[0].string == lit and toks[0].type.name in ("NAME", "OP"):
            if toks[0].type.name == "NAME" and not (lit in ("print", "exec", "s", "r", "a", "_") or lit in P.KEYWORDS):
                continue  # attribute names etc. behave like any other NAME
            add(toks[0].type.name, lit)
    for t, s in _OPEN_CLASS:
        add(t, s)
    # string prefixes the tokenizer accepts, grouped by their set of letters: per group the lower-case, the upper-case and (two
    # letters) a permuted mixed-case spelling
    groups = collections.defaultdict(list)
    for p in sorted(getattr(T, "_all_string_prefixes", lambda: set())()):
        if p:
            groups[frozenset(p.lower())].append(p)
    for g, ps in sorted(groups.items(), key=lambda kv: sorted(kv[0])):
        low = sorted(q for q in ps if q.islower())
        up = sorted(q for q in ps if q.isupper())
        mixed = sorted(q for q in ps if not q.islower() and not q.isupper())
        for q in (low[:1] + up[-1:] + mixed[-1:]):
            if "f" in g:
                add("FSTRING_START", q + "'")
            else:
                add("STRING", q + "'" + "".join(sorted(g)) + "'")
    _SIGMA = out
    return out


def _prefix_of(s):
    for i, ch in enumerate(s):
        if ch in "'\"":
            return s[:i].lower()
    return ""


def is_python_kind(t, s):
    if t == "OP" and s in PY_XONSH_ONLY_OPS:
        return False
    if t == "SEARCH_PATH":
        return False
    if t in ("STRING", "FSTRING_START") and "p" in _prefix_of(s):
        return False
    return True


def python_lexicon(sig=None):
    """indices of Σ that are Python lexemes"""
    sig = sig or sigma()
    return [k for k, (t, s) in enumerate(sig) if is_python_kind(t, s)]


# ---------------------------------------------------------------- proxies
class SymInt:
    __slots__ = ("e",)

    def __init__(self, e):
        self.e = e

    @staticmethod
    def w(o):
        return o.e if isinstance(o, SymInt) else o

    def __add__(self, o):
        if not isinstance(o, (int, SymInt)):
            return NotImplemented
        return SymInt(self.e + SymInt.w(o))
    __radd__ = __add__

    def __sub__(self, o):
        if not isinstance(o, (int, SymInt)):
            return NotImplemented
        return SymInt(self.e - SymInt.w(o))

    def __rsub__(self, o):
        return SymInt(SymInt.w(o) - self.e)

    def __eq__(self, o):
        if not isinstance(o, (int, SymInt)) or isinstance(o, bool):
            return False
        return core.EX.branch(self.e == SymInt.w(o))

    def __ne__(self, o):
        return not self.__eq__(o)

    def __lt__(self, o):
        return core.EX.branch(self.e < SymInt.w(o))

    def __le__(self, o):
        return core.EX.branch(self.e <= SymInt.w(o))

    def __gt__(self, o):
        return core.EX.branch(self.e > SymInt.w(o))

    def __ge__(self, o):
        return core.EX.branch(self.e >= SymInt.w(o))

    def __bool__(self):
        return core.EX.branch(self.e != 0)

    def __hash__(self):
        return hash(self.__index__())

    def __index__(self):
        return core.EX.int_value(self.e, 0, 1023)

    def __int__(self):
        return self.__index__()

    def __repr__(self):
        return repr(self.__index__())     # code under test formats positions into messages: concretise like format()

    def __format__(self, spec):
        return format(self.__index__(), spec)

    def ev(self, model):
        return model.eval(self.e, model_completion=True).as_long()


class _KindProxy:
    __slots__ = ("var", "sig")

    def __init__(self, var, sig):
        self.var = var
        self.sig = sig

    def _groups(self, f, cache_key):
        ck = (id(self.sig), cache_key)
        g = _GROUPS.get(ck)
        if g is None:
            d = collections.OrderedDict()
            for k, ts in enumerate(self.sig):
                try:
                    v = f(ts)
                except Exception as e:  # noqa: BLE001
                    v = _Raise(e)
                d.setdefault(_hashable(v), (v, []))[1].append(k)
            g = _GROUPS[ck] = [(v, frozenset(ks)) for v, ks in d.values()]
        return g

    def _by(self, f, cache_key):
        g = self._groups(f, cache_key)
        D = core.EX.dom[self.var.get_id()]
        live = [(v, ks) for v, ks in g if ks & D]
        gi = core.EX.choose(self.var, [ks for _, ks in live])
        v = live[gi][0]
        if isinstance(v, _Raise):
            raise type(v.e)(*v.e.args)
        return v


class _Raise:
    def __init__(self, e):
        self.e = e

    def __hash__(self):
        return hash((type(self.e).__name__, str(self.e)))

    def __eq__(self, o):
        return isinstance(o, _Raise) and type(o.e) is type(self.e) and str(o.e) == str(self.e)


_GROUPS: dict = {}


def _hashable(v):
    try:
        hash(v)
        return (type(v).__name__, v)
    except TypeError:
        return (type(v).__name__, repr(v))


class SymTokStr(_KindProxy):
    """the string of a symbolic token"""
    __slots__ = ()

    def __eq__(self, o):
        if isinstance(o, SymTokStr):
            if o.var.get_id() == self.var.get_id():
                return True
            return self.concrete() == o.concrete()
        if not isinstance(o, str):
            return False
        ks = _STR_INDEX.get((id(self.sig), o))
        if ks is None:
            ks = _STR_INDEX[(id(self.sig), o)] = frozenset(k for k, (_, s) in enumerate(self.sig) if s == o)
            if not ks and o:
                SIGMA_MISSES.add(o)
        if not ks:
            return False
        return core.EX.branch_in(self.var, ks)

    def __ne__(self, o):
        return not self.__eq__(o)

    def __hash__(self):
        return hash(self.concrete())

    def concrete(self):
        return self._by(lambda ts: ts[1], "str")

    def ev(self, model):
        return self.sig[model.eval(self.var, model_completion=True).as_long()][1]

    def __str__(self):
        return self.concrete()

    def __repr__(self):
        return repr(self.concrete())

    def __format__(self, spec):
        return format(self.concrete(), spec)

    def __getitem__(self, i):
        if isinstance(i, slice):
            key = ("slice", i.start, i.stop, i.step)
        else:
            key = ("item", i)
        return self._by(lambda ts: ts[1][i], key)

    def __len__(self):
        return self._by(lambda ts: len(ts[1]), "len")

    def __bool__(self):
        return self._by(lambda ts: bool(ts[1]), "bool")

    def __iter__(self):
        return iter(self.concrete())

    def __add__(self, o):
        return self.concrete() + (o.concrete() if isinstance(o, SymTokStr) else o)

    def __radd__(self, o):
        return o + self.concrete()

    def __contains__(self, sub):
        return self._by(lambda ts: sub in ts[1], ("contains", sub))

    def __vin__(self, container):
        if isinstance(container, str):
            return self._by(lambda ts: ts[1] in container, ("in", container))
        if isinstance(container, dict):
            container = tuple(container.keys())
        try:
            key = ("in", tuple(sorted(container)))
        except TypeError:
            return any(self == x for x in container)
        cs = frozenset(container)
        return self._by(lambda ts: ts[1] in cs, key)

    @staticmethod
    def __vjoin__(sep, items):
        return sep.join(x.concrete() if isinstance(x, SymTokStr) else x for x in items)

    def __lit_eval__(self):
        return ast.literal_eval(self.concrete())

    def __getattr__(self, name):
        if name.startswith("__") or not hasattr(str, name):
            raise AttributeError(name)

        def m(*a, **kw):
            try:
                key = ("meth", name, a, tuple(sorted(kw.items())))
                hash(key)
            except TypeError:
                return getattr(self.concrete(), name)(*a, **kw)
            return self._by(lambda ts: getattr(ts[1], name)(*a, **kw), key)
        return m


_STR_INDEX: dict = {}
SIGMA_MISSES: set = set()


class SymTokType(_KindProxy):
    __slots__ = ("enum",)

    def __init__(self, var, sig, enum):
        super().__init__(var, sig)
        self.enum = enum

    def __eq__(self, o):
        if isinstance(o, SymTokType):
            return self.concrete() is o.concrete()
        if isinstance(o, self.enum):
            ks = _TYPE_INDEX.get((id(self.sig), o.name))
            if ks is None:
                ks = _TYPE_INDEX[(id(self.sig), o.name)] = frozenset(k for k, (t, _) in enumerate(self.sig) if t == o.name)
            if not ks:
                return False
            return core.EX.branch_in(self.var, ks)
        return False

    def __ne__(self, o):
        return not self.__eq__(o)

    def concrete(self):
        return self.enum[self._by(lambda ts: ts[0], "type")]

    def ev(self, model):
        return self.enum[self.sig[model.eval(self.var, model_completion=True).as_long()][0]]

    def __hash__(self):
        return hash(self.concrete())

    def __repr__(self):
        return repr(self.concrete())

    def __vin__(self, container):
        names = frozenset(x.name for x in container if isinstance(x, self.enum))
        return self._by(lambda ts: ts[0] in names, ("tin", tuple(sorted(names))))

    @property
    def name(self):
        return self.concrete().name

    @property
    def value(self):
        return self.concrete().value


_TYPE_INDEX: dict = {}


class Opaque:
    """a value the code only carries around (token .line at level B); rendered from the model at the end"""
    __slots__ = ("f",)

    def __init__(self, f):
        self.f = f

    def ev(self, model):
        return self.f(model)

    def __getitem__(self, i):
        return Opaque(lambda m, s=self, i=i: s.ev(m)[i.ev(m) if hasattr(i, "ev") else _ev_slice(i, m)])

    @staticmethod
    def __vjoin__(sep, items):
        items = list(items)
        return Opaque(lambda m: sep.join(x.ev(m) if hasattr(x, "ev") else x for x in items))

    def __add__(self, o):
        return Opaque(lambda m, a=self, b=o: a.ev(m) + (b.ev(m) if hasattr(b, "ev") else b))

    def __radd__(self, o):
        return Opaque(lambda m, a=o, b=self: (a.ev(m) if hasattr(a, "ev") else a) + b.ev(m))

    def __repr__(self):
        return "<opaque>"


def _ev_slice(i, m):
    if isinstance(i, slice):
        f = lambda v: v.ev(m) if hasattr(v, "ev") else v  # noqa: E731
        return slice(f(i.start), f(i.stop), f(i.step))
    return i


# ---------------------------------------------------------------- streams
class Slot:
    """one position of a token stream: concrete (type_name, string) or a symbolic kind"""

    def __init__(self, kind=None, var=None, sig=None):
        self.kind = kind      # concrete (type, string) or None
        self.var = var        # z3 kind var if symbolic
        self.sig = sig

    def text(self, model):
        if self.kind is not None:
            return self.kind[1]
        return self.sig[model.eval(self.var, model_completion=True).as_long()][1]

    def tname(self, model):
        if self.kind is not None:
            return self.kind[0]
        return self.sig[model.eval(self.var, model_completion=True).as_long()][0]


def len_term(slot: Slot):
    if slot.kind is not None:
        return len(slot.kind[1])
    key = (slot.var.get_id(), id(slot.sig))
    e = _LEN_TERMS.get(key)
    if e is None:
        by_len = collections.defaultdict(list)
        for k, (_, s) in enumerate(slot.sig):
            by_len[len(s)].append(k)
        lens = sorted(by_len, key=lambda n: -len(by_len[n]))
        e = z3.IntVal(lens[0])
        for n in lens[1:]:
            e = z3.If(z3.Or([slot.var == k for k in by_len[n]]), z3.IntVal(n), e)
        _LEN_TERMS[key] = e
    return e


_LEN_TERMS: dict = {}


class Stream:
    """A one-logical-line-per-row token stream with symbolic kinds and (optionally) symbolic gaps.

    rows: list of rows; each row = list of Slot (significant tokens, no NEWLINE/ENDMARKER: they are added).
    """

    def __init__(self, ex, rows, name="t", symbolic_gaps=True, indents=None, final_newline=True):
        self.ex = ex
        self.indents = indents or [0] * len(rows)   # indentation width (columns) of each row
        self.rows = rows
        self.name = name
        self.symbolic_gaps = symbolic_gaps
        self.final_newline = final_newline
        self.starts: list = []
        self.ends: list = []
        self.gaps: list = []
        T = repo().sym.tokenize
        self.T = T
        self.tokenizer = None
        for r, row in enumerate(rows):
            ss, es, gs = [], [], []
            col = None
            for i, slot in enumerate(row):
                if symbolic_gaps:
                    g = ex.int(f"{name}g{r}_{i}", 0, None)
                else:
                    g = 0 if i == 0 else 1
                if i == 0:
                    g = 0
                gs.append(g)
                start = self.indents[r] + g if col is None else col + g
                end = start + len_term(slot)
                ss.append(start)
                es.append(end)
                col = end
            self.starts.append(ss)
            self.ends.append(es)
            self.gaps.append(gs)

    # -- rendering (from a model) --
    def render_row(self, r, model):
        out = [" " * self.indents[r]]
        for i, slot in enumerate(self.rows[r]):
            g = self.gaps[r][i]
            gv = g if isinstance(g, int) else model.eval(g, model_completion=True).as_long()
            out.append(" " * gv)
            out.append(slot.text(model))
        return "".join(out) + ("\n" if (self.final_newline or r < len(self.rows) - 1) else "")

    def render(self, model):
        return "".join(self.render_row(r, model) for r in range(len(self.rows)))

    def _mk(self, r, i):
        T = self.T
        slot = self.rows[r][i]
        s, e = self.starts[r][i], self.ends[r][i]
        S = s if isinstance(s, int) else SymInt(s)
        E = e if isinstance(e, int) else SymInt(e)
        line = Opaque(lambda m, r=r: self.render_row(r, m))
        if slot.kind is not None:
            return T.TokenInfo(T.Token[slot.kind[0]], slot.kind[1], (r + 1, S), (r + 1, E), line)
        return T.TokenInfo(SymTokType(slot.var, slot.sig, T.Token), SymTokStr(slot.var, slot.sig), (r + 1, S), (r + 1, E), line)

    def tokens(self):
        """generator in the shape `generate_tokens` produces (WS tokens for non-empty gaps, NEWLINE per row, ENDMARKER)"""
        T = self.T
        ex = self.ex
        stack = [0]
        for r, row in enumerate(self.rows):
            line = Opaque(lambda m, r=r: self.render_row(r, m))
            ind = self.indents[r]
            if ind > stack[-1]:
                stack.append(ind)
                yield T.TokenInfo(T.Token.INDENT, " " * ind, (r + 1, 0), (r + 1, ind), line)
            while ind < stack[-1]:
                stack.pop()
                yield T.TokenInfo(T.Token.DEDENT, "", (r + 1, ind), (r + 1, ind), line)
            for i, slot in enumerate(row):
                g = self.gaps[r][i]
                if i > 0 and not (isinstance(g, int) and g == 0):
                    raw = self.tokenizer is not None and (
                        self.tokenizer._proc_macro or self.tokenizer._call_macro or self.tokenizer._with_macro)
                    prev_end = self.ends[r][i - 1]
                    if isinstance(g, int):
                        a_, b_ = prev_end, self.starts[r][i]
                        yield T.TokenInfo(T.Token.WS, " " * g, (r + 1, a_ if isinstance(a_, int) else SymInt(a_)),
                                          (r + 1, b_ if isinstance(b_, int) else SymInt(b_)), line)
                    elif raw:
                        if ex.branch(g > 0):
                            n = ex.int_value(g, 1, 3)
                            yield T.TokenInfo(T.Token.WS, " " * n, (r + 1, SymInt(prev_end)), (r + 1, SymInt(self.starts[r][i])), line)
                    else:
                        yield T.TokenInfo(T.Token.WS, LazyWS(g), (r + 1, SymInt(prev_end)), (r + 1, SymInt(self.starts[r][i])), line)
                yield self._mk(r, i)
            last = self.ends[r][-1] if row else 0
            L = last if isinstance(last, int) else SymInt(last)
            if self.final_newline or r < len(self.rows) - 1:
                yield T.TokenInfo(T.Token.NEWLINE, "\n", (r + 1, L), (r + 1, L + 1), line)
            else:
                yield T.TokenInfo(T.Token.NEWLINE, "", (r + 1, L), (r + 1, L + 1), "")
        n = len(self.rows) + (1 if self.final_newline else 1)
        for _ in stack[1:]:
            yield T.TokenInfo(T.Token.DEDENT, "", (n, 0), (n, 0), "")
        yield T.TokenInfo(T.Token.ENDMARKER, "", (n, 0), (n, 0), "")

    def witness(self, prefer_distinct=True):
        """a model of the path condition; with symbolic gaps prefer pairwise different positive gaps so that
        every token boundary has its own column (used for span lifting).  Preferences are assumption literals;
        the ones in an unsat core are dropped."""
        ex = self.ex
        if self.symbolic_gaps and prefer_distinct:
            prefs = []
            n = 1
            for r, gs in enumerate(self.gaps):
                for i, g in enumerate(gs):
                    if not isinstance(g, int):
                        prefs.append(g == (n % 3) + 1)
                        n += 1
            for _ in range(6):
                if not prefs:
                    break
                lits = [z3.Bool(f"__pref{j}") for j in range(len(prefs))]
                ex.solver.push()
                try:
                    for l, p in zip(lits, prefs):
                        ex.solver.add(z3.Implies(l, p))
                    r_ = ex.check(*lits)
                    if r_ == z3.sat:
                        return ex.solver.model()
                    core = {str(c) for c in ex.solver.unsat_core()}
                finally:
                    ex.solver.pop()
                if not core:
                    break
                prefs = [p for l, p in zip(lits, prefs) if str(l) not in core]
        return ex.get_model()


class LazyWS:
    """string of a WS token whose width is a symbolic gap (possibly 0); decided only if the code looks at it"""
    __slots__ = ("g",)

    def __init__(self, g):
        self.g = g

    def concrete(self):
        ex = core.EX
        if not ex.branch(self.g > 0):
            return ""
        return " " * ex.int_value(self.g, 1, 3)

    def ev(self, model):
        return " " * model.eval(self.g, model_completion=True).as_long()

    def __eq__(self, o):
        return self.concrete() == o

    def __ne__(self, o):
        return self.concrete() != o

    def __hash__(self):
        return hash(self.concrete())

    def __str__(self):
        return self.concrete()

    def __repr__(self):
        return repr(self.concrete())

    def __bool__(self):
        return core.EX.branch(self.g > 0)

    def __len__(self):
        return len(self.concrete())

    def __getitem__(self, i):
        return self.concrete()[i]

    def __add__(self, o):
        return self.concrete() + o

    def __radd__(self, o):
        return o + self.concrete()

    def __vin__(self, c):
        return self.concrete() in c

    @staticmethod
    def __vjoin__(sep, items):
        return sep.join(x.concrete() if hasattr(x, "concrete") else x for x in items)

    def __getattr__(self, name):
        if name.startswith("__") or not hasattr(str, name):
            raise AttributeError(name)
        return getattr(self.concrete(), name)


def sym_slots(ex, n, name="k", allowed=None, sig=None):
    sig = sig or sigma()
    return [Slot(var=ex.fd(f"{name}{i}", len(sig), allowed), sig=sig) for i in range(n)]


def parse_stream(stream: Stream, mode="exec", **kw):
    """drive the loaded Tokenizer + XonshParser with a symbolic stream; returns (kind, payload) like levela.sym_parse"""
    from .levela import classify
    R = repo().sym
    tz = R.tokenizer.Tokenizer(stream.tokens(), verbose=kw.get("verbose", False))
    stream.tokenizer = tz
    try:
        p = R.parser.XonshParser(tz, **kw)
        tree = p.parse(mode if mode == "eval" else "file")
        return ("ok" if tree is not None else "None"), tree
    except core.Budget:
        return "HANG", None
    except Exception as e:  # noqa: BLE001
        return classify(e, R), e


def rows_from_text(text):
    """(indents, rows of concrete Slots) for a text whose logical lines are single physical lines without comments
    inside brackets and without tokens spanning lines; None when the text does not have that shape"""
    X = repo().real
    T = X.tokenize.Token
    from .oracles import safe_tokens
    toks = safe_tokens(X, text, 2.0)
    if toks is None:
        return None
    rows, indents = [], []
    cur = []
    cur_line = None
    for t in toks:
        if t.start[0] != t.end[0] and t.type not in (T.NEWLINE, T.NL):
            return None
        if t.type in (T.WS, T.COMMENT, T.INDENT, T.DEDENT, T.ENDMARKER):
            continue
        if t.type == T.NL:
            if cur:
                return None   # NL inside a logical line (bracket continuation)
            continue
        if t.type == T.NEWLINE:
            if cur:
                rows.append(cur)
                cur = []
                cur_line = None
            continue
        if t.type == T.ERRORTOKEN:
            return None
        if cur_line is None:
            cur_line = t.start[0]
            line = t.line
            ind = len(line) - len(line.lstrip(" "))
            if line[:ind + 1].strip(" ") and line[ind] in "\t\f":
                return None
            if t.start[1] != ind:
                return None
            indents.append(ind)
        elif t.start[0] != cur_line:
            return None    # backslash continuation
        cur.append(Slot(kind=(t.type.name, t.string)))
    if cur:
        rows.append(cur)
    if len(rows) != len(indents) or not rows:
        return None
    return indents, rows
