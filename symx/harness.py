"""symx.harness — reusable per-path procedures (DESIGN §1.4, §1.6, §1.8).

A harness is a function ex -> record.  Records carry: outcome, witness `w`, number of concrete validations,
candidate violations (`viol`: oracle name + args + verdict) and translator-validation mismatches.
"""
from __future__ import annotations

from . import chars, core, levela, levelb, oracles
from .chars import SymStr
from .load import repo


def _mm(what, so, ro):
    a, b = repr(so), repr(ro)
    i = next((i for i in range(min(len(a), len(b))) if a[i] != b[i]), min(len(a), len(b)))
    return {"what": what, "at": i, "sym": a[max(0, i - 120):i + 120], "real": b[max(0, i - 120):i + 120]}


def _cand(name, args, v, kwargs=None):
    return {"oracle": name, "args": list(args), "kwargs": kwargs or {}, "v": v}


def text_with_holes(ex, seed: str, positions, k=1, name="h", allowed=None, insert=False):
    """seed text with k symbolic characters substituted for seed[p:p+k] (or inserted before seed[p]) at each p in positions"""
    pos = sorted(set(positions))
    out = []
    j = 0
    i = 0
    n = len(seed)
    while i <= n:
        if i in pos:
            for _ in range(k):
                out.append(chars.SC(ex.fd(f"{name}{j}", chars.KC, allowed)))
                j += 1
            if not insert:
                i += k
                continue
            pos = [q for q in pos if q != i]
            if i < n:
                out.append(seed[i])
            i += 1
            continue
        if i < n:
            out.append(seed[i])
        i += 1
    return SymStr(out).simp()


def choose_index(ex, name, n):
    """fork over 0..n-1 through the solver (sharding-friendly)"""
    if n == 1:
        return 0
    return ex.value(ex.fd(name, n, selector=True))


def A_harness(textfn, do_tokens=False, do_parse=True, mode="exec", path_oracles=(), sym_tiling=False, parse_kw=None,
              validate=True, extra=None):
    """level A harness factory.  textfn(ex) -> text (SymStr/str) or (text, mode)"""
    parse_kw = parse_kw or {}

    def harness(ex):
        rp = repo()
        t = textfn(ex)
        md = mode
        if isinstance(t, tuple):
            t, md = t
        rec = {"outcome": "?", "validated": 0, "viol": []}
        tk = pk = None
        if do_tokens:
            tk, tpl = levela.sym_generate_tokens(t)
            rec["outcome"] = tk
            if sym_tiling and tk == "ok":
                lines = _sym_lines(t)
                v = oracles.tiling(rp.sym.tokenize.Token, tpl, lines, vin=chars.vin)
                if v is not None:
                    rec["_tiling"] = v
        if do_parse:
            pk, ppl = levela.sym_parse(t, md, **parse_kw)
            rec["outcome"] = pk if not do_tokens else f"{tk}/{pk}"
        m = ex.get_model()
        w = t.ev(m) if isinstance(t, SymStr) else t
        rec["w"] = w
        X = rp.real
        # --- translator validation: the unmodified modules on the witness must reproduce the symbolic outcome
        if validate:
            if do_tokens:
                rk, rpl = oracles.run_tokens(X, w, 2.0)
                so, ro = levela.observable(tk, tpl, m), levela.observable(rk, rpl)
                rec["validated"] += 1
                if so != ro:
                    rec["mismatch"] = _mm("tokens", so, ro)
            if do_parse:
                rk, rpl = oracles.run_parse(X, w, md, 4.0, **parse_kw)
                so, ro = levela.observable(pk, ppl, m), levela.observable(rk, rpl)
                rec["validated"] += 1
                if so != ro:
                    rec["mismatch"] = _mm("parse", so, ro)
        # --- intrinsic verdicts of the symbolic run (hold for the whole path class)
        if do_tokens and tk not in oracles.ALLOWED_C03 and "c03" in path_oracles:
            rec["viol"].append(_cand("c03", [w, md], {"kind": "tokenizer-" + tk, "observed": tk}, parse_kw))
        if do_parse and pk not in oracles.ALLOWED_C03 and "c03" in path_oracles:
            rec["viol"].append(_cand("c03", [w, md], {"kind": "parser-" + pk, "observed": pk}, parse_kw))
        if "_tiling" in rec:
            rec["viol"].append(_cand("c08", [w], rec.pop("_tiling")))
        # --- concrete oracles on the witness (CPython-backed ones can only be run per path)
        # CPython is opaque: characters that OUR code treats alike (one path class) may differ for CPython (NFKC-unstable letters, non-ASCII
        # digits, ...).  Besides the solver's witness, one more member of the class is tried: every symbolic character whose residual domain
        # holds non-ASCII representatives takes one of them, rotating with the path, so that over a run every representative meets CPython
        # in every kind of position.  (Any concrete input is a legitimate question to a concrete oracle; violations are replayed anyway.)
        wits = [w]
        if isinstance(t, SymStr) and path_oracles:
            alt, changed = [], False
            for c in t.e:
                if isinstance(c, str):
                    alt.append(c)
                    continue
                dom = ex.dom.get(c.var.get_id()) or ()
                na = sorted(k for k in dom if ord(c.xf[k]) > 127 and not 0xD800 <= ord(c.xf[k]) <= 0xDFFF)
                cur = c.ev(m)
                if na:
                    pick = c.xf[na[(len(getattr(ex, "trail", ())) + len(w)) % len(na)]]
                    changed = changed or pick != cur
                    alt.append(pick)
                else:
                    alt.append(cur)
            if changed:
                wits.append("".join(alt))
        for wi in wits:
            for name in path_oracles:
                f = oracles.ORACLES[name]
                if name in ("c08", "c09"):
                    v = f(X, wi)
                elif name == "c03":
                    continue
                else:
                    v = f(X, wi, md)
                if v is not None:
                    rec["viol"].append(_cand(name, [wi] if name in ("c08", "c09") else [wi, md], v))
        if extra:
            extra(ex, rec, t, w, md)
        return rec
    return harness


def _sym_lines(t):
    rd = chars.SymStringIO(t) if isinstance(t, SymStr) else None
    if rd is None:
        return oracles.read_lines(t)
    return list(rd)


def B_harness(rowsfn, mode="exec", path_oracles=(), symbolic_gaps=True, parse_kw=None, extra=None, allowed_outcomes=oracles.ALLOWED_C03):
    """level B harness factory.  rowsfn(ex) -> rows (list of list of Slot) or (rows, mode)"""
    parse_kw = parse_kw or {}

    def harness(ex):
        rp = repo()
        rows = rowsfn(ex)
        md = mode
        indents = None
        if isinstance(rows, tuple):
            rows, md = rows
        elif isinstance(rows, dict):
            indents, md, rows = rows.get("indents"), rows.get("mode", mode), rows["rows"]
        st = levelb.Stream(ex, rows, symbolic_gaps=symbolic_gaps, indents=indents)
        kind, payload = levelb.parse_stream(st, md, **parse_kw)
        m = st.witness()
        w = st.render(m)
        rec = {"outcome": kind, "w": w, "validated": 0, "viol": []}
        X = rp.real
        kinds = [(s.tname(m), s.text(m)) for row in rows for s in row]
        rk, rpl = oracles.run_tokens(X, w, 2.0)
        real = None
        if rk == "ok":
            real = [(t.type.name, t.string) for t in rpl if t.type.name not in ("WS", "NL", "COMMENT", "NEWLINE", "ENDMARKER", "INDENT", "DEDENT")]
        rec["realizable"] = real == kinds
        if not rec["realizable"]:
            rec["outcome"] = "unrealizable"
            return rec
        if extra:
            extra(ex, rec, st, payload, kind, m, w, md)
        rk2, rpl2 = oracles.run_parse(X, w, md, 4.0, **parse_kw)
        so, ro = levela.observable(kind, payload, m), levela.observable(rk2, rpl2)
        rec["validated"] += 1
        if so != ro:
            rec["mismatch"] = _mm("parse(B)", so, ro)
        if kind not in allowed_outcomes and "c03" in path_oracles:
            rec["viol"].append(_cand("c03", [w, md], {"kind": "parser-" + kind, "observed": kind}, parse_kw))
        for name in path_oracles:
            if name == "c03":
                continue
            f = oracles.ORACLES[name]
            v = f(X, w) if name in ("c08", "c09") else f(X, w, md)
            if v is not None:
                rec["viol"].append(_cand(name, [w] if name in ("c08", "c09") else [w, md], v))
        return rec
    return harness
