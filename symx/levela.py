"""symx.levela — character-level harness helpers: run the real tokenizer / parser of /repo on symbolic text,
normalise outcomes, and validate each path against the unmodified modules (DESIGN §1.4, §1.6 A)."""
from __future__ import annotations

import ast
import io

from . import chars, core
from .chars import SymStr, conc
from .core import Budget, time_limit
from .load import repo

TOKEN_BUDGET_PER_CHAR = 8


def tok_tuple(t):
    return (t.type.name, t.string, tuple(t.start), tuple(t.end), t.line)


def exc_sig(e):
    """observable signature of an exception"""
    if isinstance(e, SyntaxError):
        return (type(e).__name__, e.msg, e.filename, e.lineno, e.offset, e.text, e.end_lineno, e.end_offset)
    return (type(e).__name__, tuple(repr(a) for a in e.args))


def classify(e, R):
    if isinstance(e, SyntaxError):
        return type(e).__name__
    if isinstance(e, (R.tokenize.TokenError,)):
        return "TokenError"
    return "EXC:" + type(e).__name__


def sym_generate_tokens(text, maxtok=None):
    """run the loaded (rewritten) tokenizer on text (str or SymStr) → (kind, payload)"""
    R = repo().sym
    maxtok = maxtok or (TOKEN_BUDGET_PER_CHAR * len(text) + 20)
    toks = []
    try:
        for t in R.tokenize.generate_tokens(io.StringIO(text).readline if not isinstance(text, str) else text):
            toks.append(t)
            if len(toks) > maxtok:
                return "HANG", toks
        return "ok", toks
    except Budget:
        return "HANG", toks
    except Exception as e:  # noqa: BLE001
        return classify(e, R), (e, toks)


def real_generate_tokens(src: str, wall=3.0):
    k, p = _real_generate_tokens(src, wall)
    if k == "HANG":    # a loaded machine is not a hang: confirm with a much larger limit
        k, p = _real_generate_tokens(src, wall * 10)
    return k, p


def _real_generate_tokens(src: str, wall=3.0):
    R = repo().real
    toks = []
    tl = time_limit(wall)
    with tl:
        try:
            for t in R.tokenize.generate_tokens(src):
                toks.append(t)
            return "ok", toks
        except Exception as e:  # noqa: BLE001
            return classify(e, R), (e, toks)
    return "HANG", toks


def sym_parse(text, mode="exec", **kw):
    """XonshParser.parse_string of the loaded modules on text (str or SymStr)"""
    R = repo().sym
    try:
        tree = R.parser.XonshParser.parse_string(text, mode=mode, **kw)
        return ("ok" if tree is not None else "None"), tree
    except Budget:
        return "HANG", None
    except Exception as e:  # noqa: BLE001
        return classify(e, R), e


def real_parse(src: str, mode="exec", wall=5.0, **kw):
    k, p = _real_parse(src, mode, wall, **kw)
    if k == "HANG":    # a loaded machine is not a hang: confirm with a much larger limit
        k, p = _real_parse(src, mode, wall * 10, **kw)
    return k, p


def _real_parse(src: str, mode="exec", wall=5.0, **kw):
    R = repo().real
    tl = time_limit(wall)
    with tl:
        try:
            tree = R.parser.XonshParser.parse_string(src, mode=mode, **kw)
            return ("ok" if tree is not None else "None"), tree
        except RecursionError as e:
            return "EXC:RecursionError", e
        except Exception as e:  # noqa: BLE001
            return classify(e, R), e
    return "HANG", None


def dump(tree):
    from .oracles import dump as _d
    return _d(tree)


def observable(kind, payload, model=None):
    """comparable form of an outcome; proxies instantiated by the model"""
    if kind == "ok":
        if isinstance(payload, list):
            toks = payload if model is None else conc(payload, model)
            return ("ok", [tok_tuple(t) for t in toks])
        tree = payload if model is None else conc(payload, model)
        return ("ok", dump(tree))
    if kind in ("HANG", "None"):
        return (kind,)
    e = payload[0] if isinstance(payload, tuple) else payload
    sig = exc_sig(e)
    if model is not None:
        sig = conc(sig, model)
    return (kind, sig)


def witness(ex, text):
    m = ex.get_model()
    return text.ev(m) if isinstance(text, SymStr) else text, m
