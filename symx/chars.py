"""symx.chars — level A proxies: symbolic characters/strings and a symbolic regex matcher (DESIGN §1.3, §1.5)."""
from __future__ import annotations

import re

try:
    import re._constants as sre_c
    import re._parser as sre_parse
except ImportError:  # pragma: no cover
    import sre_constants as sre_c
    import sre_parse

from . import core
from .core import EngineError

# representative code points: all ASCII + one per non-ASCII behaviour class
R = [chr(i) for i in range(128)] + list("\xe9\xc9\u0663\u20ac\xa0\u2028\x85\U0001d400\ufeff") + [chr(0xD800)]   # last: a lone surrogate (a str may hold one; it cannot be encoded)
RI = {c: i for i, c in enumerate(R)}
KC = len(R)
IDENT = tuple(R)


class SC:
    """symbolic character: finite-domain var over R, optionally mapped through a char transform"""
    __slots__ = ("var", "xf")

    def __init__(self, var, xf=IDENT):
        self.var = var
        self.xf = xf

    def ev(self, model) -> str:
        return self.xf[model.eval(self.var, model_completion=True).as_long()]


_PRED: dict = {}


def test(c, f, key) -> bool:
    """evaluate predicate f on a concrete char or decide it on a symbolic one"""
    if isinstance(c, str):
        return f(c)
    k = (key, id(c.xf))
    s = _PRED.get(k)
    if s is None:
        s = _PRED[k] = frozenset(i for i, ch in enumerate(c.xf) if f(ch))
    return core.EX.branch_in(c.var, s)


def cvalue(c) -> str:
    if isinstance(c, str):
        return c
    return c.xf[core.EX.value(c.var)]


class SymStr:
    __slots__ = ("e",)

    def __init__(self, elems):
        self.e = tuple(elems)

    @staticmethod
    def mk(x) -> "SymStr":
        if isinstance(x, SymStr):
            return x
        if isinstance(x, str):
            return SymStr(tuple(x))
        raise EngineError(f"SymStr.mk({type(x).__name__})")

    def simp(self):
        for c in self.e:
            if not isinstance(c, str):
                return self
        return "".join(self.e)

    # --- structure ---
    def __len__(self):
        return len(self.e)

    def __bool__(self):
        return len(self.e) > 0

    def __getitem__(self, i):
        if isinstance(i, slice):
            return SymStr(self.e[i]).simp()
        c = self.e[i]
        return c if isinstance(c, str) else SymStr((c,))

    def __iter__(self):
        for i in range(len(self.e)):
            yield self[i]

    def __add__(self, o):
        if not isinstance(o, (str, SymStr)):
            return NotImplemented
        return SymStr(self.e + SymStr.mk(o).e).simp()

    def __radd__(self, o):
        if not isinstance(o, (str, SymStr)):
            return NotImplemented
        return SymStr(SymStr.mk(o).e + self.e).simp()

    def __mul__(self, n):
        return SymStr(self.e * n).simp()

    # --- comparisons ---
    def __eq__(self, o):
        if isinstance(o, str):
            oe = o
        elif isinstance(o, SymStr):
            oe = o.e
        else:
            return False
        if len(oe) != len(self.e):
            return False
        for a, b in zip(self.e, oe):
            sa, sb = isinstance(a, str), isinstance(b, str)
            if sa and sb:
                if a != b:
                    return False
            elif sb:
                if not test(a, lambda ch, b=b: ch == b, ("eq", b)):
                    return False
            elif sa:
                if not test(b, lambda ch, a=a: ch == a, ("eq", a)):
                    return False
            else:
                if a.var.get_id() == b.var.get_id() and a.xf is b.xf:
                    continue
                va = cvalue(a)
                if not test(b, lambda ch, va=va: ch == va, ("eq", va)):
                    return False
        return True

    def __ne__(self, o):
        return not self.__eq__(o)

    def _cmp(self, o):
        a, b = self.concrete(), (o.concrete() if isinstance(o, SymStr) else o)
        return (a > b) - (a < b)

    def __lt__(self, o):
        return self._cmp(o) < 0

    def __le__(self, o):
        return self._cmp(o) <= 0

    def __gt__(self, o):
        return self._cmp(o) > 0

    def __ge__(self, o):
        return self._cmp(o) >= 0

    # --- concretisation (by fork) ---
    def concrete(self) -> str:
        return "".join(cvalue(c) for c in self.e)

    def ev(self, model) -> str:
        return "".join(c if isinstance(c, str) else c.ev(model) for c in self.e)

    def __hash__(self):
        return hash(self.concrete())

    def __str__(self):
        return self.concrete()

    def __repr__(self):
        return repr(self.concrete())

    def __format__(self, spec):
        return format(self.concrete(), spec)

    def encode(self, *a):
        return self.concrete().encode(*a)

    # --- string methods used by the code under analysis ---
    def __contains__(self, sub):
        sub = SymStr.mk(sub)
        n = len(sub.e)
        for i in range(len(self.e) - n + 1):
            if SymStr(self.e[i:i + n]) == sub:
                return True
        return False

    def lower(self):
        return self._map(str.lower, "lower")

    def upper(self):
        return self._map(str.upper, "upper")

    def _map(self, f, name):
        out = []
        for c in self.e:
            if isinstance(c, str):
                out.append(f(c))
            else:
                xf = _xf_cache.get((id(c.xf), name))
                if xf is None:
                    xf = tuple(f(ch) for ch in c.xf)
                    if any(len(ch) != 1 for ch in xf):
                        raise EngineError("case mapping changes length")
                    _xf_cache[(id(c.xf), name)] = xf
                    _xf_keep.append(c.xf)
                out.append(SC(c.var, xf))
        return SymStr(out).simp()

    def _strip(self, chars, left, right):
        if chars is None:
            f, key = (lambda ch: ch.isspace()), "isspace"
        else:
            cs = chars.concrete() if isinstance(chars, SymStr) else chars
            f, key = (lambda ch: ch in cs), ("strip", cs)
        a, b = 0, len(self.e)
        if left:
            while a < b and test(self.e[a], f, key):
                a += 1
        if right:
            while b > a and test(self.e[b - 1], f, key):
                b -= 1
        return SymStr(self.e[a:b]).simp()

    def strip(self, chars=None):
        return self._strip(chars, True, True)

    def rstrip(self, chars=None):
        return self._strip(chars, False, True)

    def lstrip(self, chars=None):
        return self._strip(chars, True, False)

    def startswith(self, p, *a):
        if isinstance(p, tuple):
            return any(self.startswith(q) for q in p)
        return len(self.e) >= len(p) and SymStr(self.e[:len(p)]) == p

    def endswith(self, p, *a):
        if isinstance(p, tuple):
            return any(self.endswith(q) for q in p)
        return len(self.e) >= len(p) and SymStr(self.e[len(self.e) - len(p):]) == p

    def isspace(self):
        return len(self.e) > 0 and all(test(c, lambda ch: ch.isspace(), "isspace") for c in self.e)

    def find(self, sub, start=0):
        n = len(sub)
        for i in range(start, len(self.e) - n + 1):
            if SymStr(self.e[i:i + n]) == sub:
                return i
        return -1

    def count(self, sub):
        n = len(sub)
        if n == 0:
            return len(self.e) + 1
        i = cnt = 0
        while i <= len(self.e) - n:
            if SymStr(self.e[i:i + n]) == sub:
                cnt += 1
                i += n
            else:
                i += 1
        return cnt

    def replace(self, old, new, count=-1):
        n = len(old)
        if n == 0:
            raise EngineError("replace('')")
        out = []
        i = 0
        while i < len(self.e):
            if count != 0 and i <= len(self.e) - n and SymStr(self.e[i:i + n]) == old:
                out.extend(SymStr.mk(new).e)
                i += n
                count -= 1
            else:
                out.append(self.e[i])
                i += 1
        return SymStr(out).simp()

    def split(self, sep=None, maxsplit=-1):
        return self.concrete().split(sep, maxsplit)

    def splitlines(self, keepends=False):
        return self.concrete().splitlines(keepends)

    def __getattr__(self, name):
        if name.startswith("__"):
            raise AttributeError(name)
        if not hasattr(str, name):
            raise AttributeError(name)

        def m(*a, **kw):
            return getattr(self.concrete(), name)(*a, **kw)
        return m


_xf_cache: dict = {}
_xf_keep: list = []


def sym_text(ex, name: str, n: int, allowed=None) -> SymStr:
    """n fresh symbolic characters named name0..name{n-1}"""
    return SymStr([SC(ex.fd(f"{name}{i}", KC, allowed)) for i in range(n)])


def allowed_set(chars) -> frozenset:
    return frozenset(RI[c] for c in chars)


def vin(a, b):
    """semantics of `a in b` when a or b may be proxies (loader rewrites every `in`)"""
    h = getattr(type(a), "__vin__", None)
    if h is not None:
        return h(a, b)
    if isinstance(a, SymStr):
        if isinstance(b, str):
            n = len(a)
            if n == 1:
                return test(a.e[0], lambda ch: ch in b, ("in", b))
            return any(a == b[i:i + n] for i in range(len(b) - n + 1))
        if isinstance(b, SymStr):
            return b.__contains__(a)
        if isinstance(b, dict):
            return any(a == x for x in b.keys())
        return any(a == x for x in b)
    if isinstance(b, SymStr):
        return b.__contains__(a)
    if isinstance(b, (tuple, list, set, frozenset)) and b and _has_proxy(b):
        return any((a is x) or (x == a) for x in b)
    return a in b


def _has_proxy(seq):
    for x in seq:
        if isinstance(x, SymStr):
            return True
    return False


def vjoin(sep, it):
    items = list(it)
    if isinstance(sep, str) and all(isinstance(x, str) for x in items):
        return sep.join(items)
    h = None
    for x in items:
        h = getattr(type(x), "__vjoin__", None)
        if h is not None:
            return h(sep, items)
    out: list = []
    for i, x in enumerate(items):
        if i:
            out.extend(SymStr.mk(sep).e)
        out.extend(SymStr.mk(x).e)
    return SymStr(out).simp()


def vmeth(obj, name, *args):
    """obj.name(*args) where obj may be a plain str and an argument a proxy"""
    if isinstance(obj, str) and any(isinstance(a, SymStr) for a in args):
        obj = SymStr.mk(obj)
    elif isinstance(obj, str) and any(hasattr(type(a), "concrete") for a in args):
        args = tuple(a.concrete() if hasattr(type(a), "concrete") else a for a in args)
    return getattr(obj, name)(*args)


# ---------------- symbolic regex matcher over sre_parse trees -----------------
def _isword(ch):
    return ch.isalnum() or ch == "_"


CATS = {
    sre_c.CATEGORY_DIGIT: lambda ch: ch.isdecimal(),
    sre_c.CATEGORY_NOT_DIGIT: lambda ch: not ch.isdecimal(),
    sre_c.CATEGORY_SPACE: lambda ch: ch.isspace(),
    sre_c.CATEGORY_NOT_SPACE: lambda ch: not ch.isspace(),
    sre_c.CATEGORY_WORD: _isword,
    sre_c.CATEGORY_NOT_WORD: lambda ch: not _isword(ch),
}


def in_pred(items):
    neg = False
    fs = []
    for op, av in items:
        if op is sre_c.NEGATE:
            neg = True
        elif op is sre_c.LITERAL:
            fs.append(lambda ch, av=av: ord(ch) == av)
        elif op is sre_c.RANGE:
            fs.append(lambda ch, av=av: av[0] <= ord(ch) <= av[1])
        elif op is sre_c.CATEGORY:
            fs.append(CATS[av])
        else:
            raise EngineError(f"regex class item {op}")
    if neg:
        return lambda ch: not any(f(ch) for f in fs)
    return lambda ch: any(f(ch) for f in fs)


def _validate_class_preds():
    """the category predicates must agree with `re` on every representative (checked once per process)"""
    for pat, f in ((r"\w", CATS[sre_c.CATEGORY_WORD]), (r"\s", CATS[sre_c.CATEGORY_SPACE]), (r"\d", CATS[sre_c.CATEGORY_DIGIT])):
        rx = re.compile(pat)
        for ch in R:
            if bool(rx.fullmatch(ch)) != bool(f(ch)):
                raise EngineError(f"category predicate {pat} disagrees with re on {ch!r}")


_validate_class_preds()

MATCH_CALLS = 0


class SymPattern:
    def __init__(self, pattern, flags=0):
        self.pattern = pattern
        self.flags = flags
        self.real = re.compile(pattern, flags)
        if self.real.flags & (re.IGNORECASE | re.DOTALL | re.MULTILINE | re.VERBOSE | re.ASCII):
            raise EngineError("regex flags not supported by the symbolic matcher")
        self.tree = list(sre_parse.parse(pattern, flags))
        self.groupindex = dict(self.real.groupindex)
        self.names = {v: k for k, v in self.groupindex.items()}
        self._pc: dict = {}

    def match(self, string, pos=0):
        core.EX.tick()
        if isinstance(string, str):
            return self.real.match(string, pos)
        s = string.e
        res = self._m(self.tree, 0, s, pos, {}, lambda p, g: (p, g))
        if res is None:
            return None
        end, g = res
        return SymMatch(self, string, pos, end, g)

    def _m(self, seq, k, s, p, g, cont):
        if k == len(seq):
            return cont(p, g)
        op, av = seq[k]

        def nxt(p2, g2):
            return self._m(seq, k + 1, s, p2, g2, cont)
        if op is sre_c.LITERAL:
            if p < len(s) and test(s[p], lambda ch, av=av: ord(ch) == av, ("lit", av)):
                return nxt(p + 1, g)
            return None
        if op is sre_c.NOT_LITERAL:
            if p < len(s) and test(s[p], lambda ch, av=av: ord(ch) != av, ("nlit", av)):
                return nxt(p + 1, g)
            return None
        if op is sre_c.ANY:
            if p < len(s) and test(s[p], lambda ch: ch != "\n", "any"):
                return nxt(p + 1, g)
            return None
        if op is sre_c.IN:
            key = ("in", repr(av))
            f = self._pc.get(key)
            if f is None:
                f = self._pc[key] = in_pred(av)
            if p < len(s) and test(s[p], f, key):
                return nxt(p + 1, g)
            return None
        if op is sre_c.BRANCH:
            for alt in av[1]:
                r = self._m(list(alt), 0, s, p, g, nxt)
                if r is not None:
                    return r
            return None
        if op is sre_c.SUBPATTERN:
            gid, add_flags, del_flags, sub = av
            if add_flags or del_flags:
                raise EngineError("inline regex flags")

            def after(p2, g2, gid=gid, p=p):
                if gid is not None:
                    g3 = dict(g2)
                    g3[gid] = (p, p2)
                    g3["last"] = gid
                    return nxt(p2, g3)
                return nxt(p2, g2)
            return self._m(list(sub), 0, s, p, g, after)
        if op in (sre_c.MAX_REPEAT, sre_c.MIN_REPEAT):
            lo, hi, sub = av
            sub = list(sub)
            greedy = op is sre_c.MAX_REPEAT

            def rep(count, p1, g1):
                def more():
                    if count < hi:
                        return self._m(sub, 0, s, p1, g1,
                                       lambda p2, g2: rep(count + 1, p2, g2) if (p2 > p1 or count < lo) else None)
                    return None
                if count < lo:
                    return more()
                if greedy:
                    r = more()
                    if r is not None:
                        return r
                    return nxt(p1, g1)
                r = nxt(p1, g1)
                if r is not None:
                    return r
                return more()
            return rep(0, p, g)
        if op is sre_c.ASSERT or op is sre_c.ASSERT_NOT:
            direction, sub = av
            if direction != 1:
                # look-behind: `re` only admits fixed-width sub-patterns; the sub-pattern must match s[p-w:p] exactly
                lo, hi = sub.getwidth()
                if lo != hi:
                    raise EngineError("variable-width look-behind")
                r = None
                if p - lo >= 0:
                    r = self._m(list(sub), 0, s, p - lo, g, lambda p2, g2: (p2, g2) if p2 == p else None)
            else:
                r = self._m(list(sub), 0, s, p, g, lambda p2, g2: (p2, g2))
            if op is sre_c.ASSERT:
                if r is None:
                    return None
                return nxt(p, r[1])
            return nxt(p, g) if r is None else None
        if op is sre_c.AT:
            if av is sre_c.AT_END_STRING:
                return nxt(p, g) if p == len(s) else None
            if av in (sre_c.AT_BEGINNING, sre_c.AT_BEGINNING_STRING):
                return nxt(p, g) if p == 0 else None
            if av is sre_c.AT_END:
                if p == len(s):
                    return nxt(p, g)
                if p == len(s) - 1 and test(s[p], lambda ch: ch == "\n", ("eq", "\n")):
                    return nxt(p, g)
                return None
            raise EngineError(f"regex AT {av}")
        raise EngineError(f"regex opcode {op}")


class SymMatch:
    def __init__(self, pat, string, pos, end, groups):
        self.re = pat
        self.string = string
        self._g = dict(groups)
        self.lastindex = self._g.pop("last", None)
        self._g[0] = (pos, end)
        self.lastgroup = pat.names.get(self.lastindex)

    def _i(self, g):
        return self.re.groupindex[g] if isinstance(g, str) else g

    def span(self, g=0):
        return self._g.get(self._i(g), (-1, -1))

    def start(self, g=0):
        return self.span(g)[0]

    def end(self, g=0):
        return self.span(g)[1]

    def group(self, g=0):
        a, b = self.span(g)
        if a < 0:
            return None
        return self.string[a:b]


_PATS: dict = {}


def sym_compile(expr, flags=re.UNICODE):
    if isinstance(expr, SymStr):
        expr = expr.concrete()
    p = _PATS.get((expr, flags))
    if p is None:
        p = _PATS[(expr, flags)] = SymPattern(expr, flags)
    return p


# ---------------- helpers for harnesses -----------------
class SymStringIO:
    """io.StringIO(text).readline for SymStr text: lines end at '\\n' (StringIO default newline='\\n': no translation)"""

    def __init__(self, text, newline="\n"):
        self._t = SymStr.mk(text)
        self._p = 0

    def readline(self):
        core.EX.tick()     # a scanner that keeps asking for lines after the end of input must run into the step budget
        e = self._t.e
        n = len(e)
        if self._p >= n:
            return ""
        i = self._p
        while i < n:
            if test(e[i], lambda ch: ch == "\n", ("eq", "\n")):
                i += 1
                break
            i += 1
        line = SymStr(e[self._p:i]).simp()
        self._p = i
        return line

    def __iter__(self):
        while True:
            ln = self.readline()
            if not ln:
                return
            yield ln


def conc(x, model):
    """instantiate every proxy inside x (ast trees, tuples, lists, TokenInfo) by the model"""
    import ast as _ast
    if isinstance(x, SymStr):
        return x.ev(model)
    ev = getattr(x, "ev", None)
    if ev is not None and not isinstance(x, type):
        return ev(model)
    if isinstance(x, _ast.AST):
        for k, v in list(vars(x).items()):
            if not isinstance(v, (int, str, type(None))) or isinstance(v, SymStr):
                setattr(x, k, conc(v, model))
        return x
    if isinstance(x, list):
        return [conc(i, model) for i in x]
    if isinstance(x, tuple):
        vals = [conc(i, model) for i in x]
        if hasattr(x, "_fields"):
            return type(x)(*vals)
        return tuple(vals)
    if isinstance(x, dict):
        return {k: conc(v, model) for k, v in x.items()}
    return x


def conc_copy(x, model):
    """like conc but builds a new structure and leaves x (and the proxies inside) untouched"""
    import ast as _ast
    if isinstance(x, SymStr):
        return x.ev(model)
    ev = getattr(x, "ev", None)
    if ev is not None and not isinstance(x, type):
        return ev(model)
    if isinstance(x, _ast.AST):
        n = type(x)()
        for k, v in vars(x).items():
            setattr(n, k, conc_copy(v, model))
        return n
    if isinstance(x, list):
        return [conc_copy(i, model) for i in x]
    if isinstance(x, tuple):
        vals = [conc_copy(i, model) for i in x]
        if hasattr(x, "_fields"):
            return type(x)(*vals)
        return tuple(vals)
    if isinstance(x, dict):
        return {k: conc_copy(v, model) for k, v in x.items()}
    return x
