"""symx.core — replay-DFS path explorer over z3 (DESIGN §1.2).

The program under analysis (real functions of /repo, loaded by symx.load) runs natively on
proxy objects.  Every control-flow relevant operation on a proxy ends in `Explorer.branch`.
A path is identified by its list of boolean decisions; unexplored flips are kept on a
work-list and re-executed from scratch (no state snapshotting).  z3 decides, for every new
decision, whether the other side is satisfiable under the path condition.
"""
from __future__ import annotations

import collections
import multiprocessing as mp
import os
import signal
import sys
import time
import traceback

import z3


class Budget(BaseException):
    """step budget exceeded on a path (possible non-termination)"""


class EngineError(BaseException):
    """the engine itself cannot handle something (unsupported opcode, proxy misuse)"""


class WallTimeout(BaseException):
    pass


class Explorer:
    def __init__(self) -> None:
        self.solver = z3.Solver()
        self.work: list[list[bool]] = [[]]
        self.npaths = 0
        self.nchecks = 0
        self.ndecisions = 0
        self.solver_time = 0.0
        self.unknowns = 0
        self._in_cache: dict = {}
        self.prefix: list[bool] = []
        self.trail: list[bool] = []
        self.model = None
        self.dom: dict[int, frozenset] = {}
        self.selectors: set = set()
        self.vars: dict[str, tuple] = {}
        self.steps = 0
        self.step_budget = 10**9
        self.min_depth = 0

    # ---- solver plumbing -------------------------------------------------
    def check(self, *extra):
        t = time.perf_counter()
        self.nchecks += 1
        r = self.solver.check(*extra)
        self.solver_time += time.perf_counter() - t
        if r == z3.unknown:
            self.unknowns += 1
        return r

    def begin(self, prefix: list[bool]) -> None:
        self.prefix = prefix
        self.trail = []
        self.solver.push()
        self.model = None
        self.dom = {}
        self.vars = {}
        self.selectors = set()
        self.steps = 0

    def end(self) -> None:
        self.solver.pop()
        self.npaths += 1

    def get_model(self):
        if self.model is None:
            r = self.check()
            if r != z3.sat:
                raise EngineError(f"path condition not sat: {r}")
            self.model = self.solver.model()
        return self.model

    def tick(self, n: int = 1) -> None:
        self.steps += n
        if self.steps > self.step_budget:
            raise Budget()

    # ---- variables -----------------------------------------------------
    def fd(self, name: str, size: int, allowed=None, selector=False):
        """finite-domain Int variable with values 0..size-1 (optionally restricted).  selector=True: the variable only picks
        a case from a list (it never meets another variable in a constraint), so its splits need no feasibility query"""
        if name in self.vars:
            return self.vars[name][0]
        v = z3.Int(name)
        if selector:
            self.selectors.add(v.get_id())
        if allowed is None:
            self.solver.add(v >= 0, v < size)
            d = frozenset(range(size))
        else:
            d = frozenset(allowed)
            self.solver.add(self.IN(v, d))
            self.model = None   # a cached model completes unknown variables with 0, which may lie outside the domain
        self.dom[v.get_id()] = d
        self.vars[name] = (v, "fd", size)
        return v

    def int(self, name: str, lo=None, hi=None):
        if name in self.vars:
            return self.vars[name][0]
        v = z3.Int(name)
        if lo is not None:
            self.solver.add(v >= lo)
        if hi is not None:
            self.solver.add(v <= hi)
        if lo is not None or hi is not None:
            self.model = None
        self.vars[name] = (v, "int", None)
        return v

    def IN(self, var, ks):
        key = (var.get_id(), ks)
        e = self._in_cache.get(key)
        if e is None:
            ks2 = sorted(ks)
            e = z3.Or([var == k for k in ks2]) if len(ks2) != 1 else var == ks2[0]
            if len(self._in_cache) > 200000:
                self._in_cache.clear()
            self._in_cache[key] = e
        return e

    # ---- decisions -------------------------------------------------------
    def _decide(self, cond, other_known_feasible=False) -> bool:
        i = len(self.trail)
        self.ndecisions += 1
        if i < len(self.prefix):
            d = self.prefix[i]
            self.model = None
        else:
            m = self.get_model()
            d = z3.is_true(m.eval(cond, model_completion=True))
            if other_known_feasible:
                # selector variables (see `fd(..., selector=True)`) occur in unary constraints only: the domain cache is exact
                self.work.append(self.trail + [not d])
            else:
                r = self.check(z3.Not(cond) if d else cond)
                if r == z3.sat:
                    self.work.append(self.trail + [not d])
                elif r == z3.unknown:
                    raise EngineError("solver returned unknown on a branch decision")
        self.trail.append(d)
        self.solver.add(cond if d else z3.Not(cond))
        return d

    def branch(self, cond) -> bool:
        """general z3 Bool condition"""
        if isinstance(cond, bool):
            return cond
        cond = z3.simplify(cond)
        if z3.is_true(cond):
            return True
        if z3.is_false(cond):
            return False
        return self._decide(cond)

    def branch_in(self, var, ks: frozenset) -> bool:
        """var ∈ ks for a finite-domain var; answers from the domain cache when implied"""
        vid = var.get_id()
        D = self.dom[vid]
        inter = D & ks
        if not inter:
            return False
        if len(inter) == len(D):
            return True
        d = self._decide(self.IN(var, ks), other_known_feasible=vid in self.selectors)
        self.dom[vid] = inter if d else (D - ks)
        return d

    def choose(self, var, groups: list[frozenset]) -> int:
        """fork on which group var lies in"""
        for gi, g in enumerate(groups[:-1]):
            if self.branch_in(var, g):
                return gi
        return len(groups) - 1

    def value(self, var) -> int:
        """concretise a finite-domain var: deterministic binary splitting of its remaining domain"""
        vid = var.get_id()
        while True:
            D = self.dom[vid]
            if len(D) == 1:
                return next(iter(D))
            if not D:
                raise EngineError("empty domain")
            s = sorted(D)
            half = s[: len(s) // 2]
            if s[-1] - s[0] + 1 == len(s):
                # contiguous domain: split by a threshold (one comparison instead of a disjunction of equalities)
                d = self._decide(var <= half[-1], other_known_feasible=vid in self.selectors)
                self.dom[vid] = frozenset(half) if d else frozenset(s[len(half):])
            else:
                self.branch_in(var, frozenset(half))

    def int_value(self, expr, lo: int, hi: int) -> int:
        """concretise an integer term by forking over [lo, hi]"""
        while lo < hi:
            mid = (lo + hi) // 2
            if self.branch(expr <= mid):
                hi = mid
            else:
                lo = mid + 1
        return lo

    def eval(self, expr):
        return self.get_model().eval(expr, model_completion=True)

    def prove(self, claim) -> tuple[str, object]:
        """decide PC ⇒ claim.  returns ('valid', None) | ('cex', model) | ('unknown', None)"""
        if isinstance(claim, bool):
            return ("valid", None) if claim else ("cex", self.get_model())
        r = self.check(z3.Not(claim))
        if r == z3.unsat:
            return "valid", None
        if r == z3.sat:
            return "cex", self.solver.model()
        return "unknown", None


EX: Explorer = Explorer()


def ex() -> Explorer:
    return EX


# --------------------------------------------------------------------------
# sharded driver
# --------------------------------------------------------------------------
_HARNESS = None
_STEP_BUDGET = 10**9


def _alarm(signum, frame):
    raise WallTimeout()


def run_paths(prefixes, max_paths, harness=None, path_wall=20.0):
    """explore the sub-trees below `prefixes`, at most max_paths paths; returns (records, leftover, stats)"""
    global EX
    harness = harness or _HARNESS
    e = EX
    e.work = list(prefixes)
    recs = []
    n = 0
    c0, s0, d0, u0 = e.nchecks, e.solver_time, e.ndecisions, e.unknowns
    signal.signal(signal.SIGALRM, _alarm)
    while e.work and n < max_paths:
        prefix = e.work.pop()
        e.begin(prefix)
        e.step_budget = _STEP_BUDGET
        rec = None
        signal.setitimer(signal.ITIMER_REAL, path_wall)
        try:
            try:
                rec = harness(e)
            finally:
                signal.setitimer(signal.ITIMER_REAL, 0)
        except WallTimeout:
            rec = {"outcome": "ENGINE:path-wall-timeout", "trail": list(e.trail)}
        except EngineError as err:
            rec = {"outcome": "ENGINE:" + str(err)[:300], "trail": list(e.trail)}
        except Budget:
            rec = {"outcome": "ENGINE:budget-unhandled"}
        except RecursionError:
            rec = {"outcome": "ENGINE:recursion"}
        except Exception as err:  # harness bug
            rec = {"outcome": "ENGINE:harness:" + type(err).__name__ + ":" + str(err)[:200],
                   "tb": traceback.format_exc()[-1500:]}
        finally:
            e.end()
        n += 1
        if rec is not None:
            recs.append(rec)
    stats = {"paths": n, "checks": e.nchecks - c0, "solver_s": e.solver_time - s0,
             "decisions": e.ndecisions - d0, "unknowns": e.unknowns - u0}
    left = e.work
    e.work = []
    return recs, left, stats


def _worker(task):
    prefixes, max_paths, path_wall = task
    sys.setrecursionlimit(20000)
    return run_paths(prefixes, max_paths, None, path_wall)


class Result:
    def __init__(self):
        self.paths = 0
        self.checks = 0
        self.decisions = 0
        self.solver_s = 0.0
        self.unknowns = 0
        self.exhaustive = True
        self.wall = 0.0
        self.left = 0
        self.outcomes = collections.Counter()
        self.engine_errors: list = []

    def as_dict(self):
        return {"paths": self.paths, "solver_checks": self.checks, "decisions": self.decisions,
                "solver_s": round(self.solver_s, 2), "exhaustive": self.exhaustive,
                "wall_s": round(self.wall, 2), "unexplored_prefixes": self.left,
                "outcomes": dict(self.outcomes)}


def explore(harness, on_record=None, nproc=None, wall=None, max_paths=None, chunk=150,
            step_budget=10**9, path_wall=20.0, seed_paths=40) -> Result:
    """Exhaust the decision tree of `harness` (or stop at the wall/path budget → exhaustive=False)."""
    global _HARNESS, _STEP_BUDGET, EX
    _HARNESS = harness
    _STEP_BUDGET = step_budget
    nproc = nproc or int(os.environ.get("VERIF_NPROC", "0")) or min(16, os.cpu_count() or 1)
    res = Result()
    t0 = time.time()
    EX = Explorer()

    def absorb(recs, stats):
        res.paths += stats["paths"]
        res.checks += stats["checks"]
        res.solver_s += stats["solver_s"]
        res.decisions += stats["decisions"]
        res.unknowns += stats["unknowns"]
        for r in recs:
            o = r.get("outcome", "?")
            res.outcomes[o.split(":")[0] if o.startswith("ENGINE") else o] += 1
            if o.startswith("ENGINE"):
                if len(res.engine_errors) < 20:
                    res.engine_errors.append(r)
            if on_record:
                on_record(r)

    # seed phase in-process
    recs, left, stats = run_paths([[]], seed_paths, harness, path_wall)
    absorb(recs, stats)
    pending = left
    if pending and nproc > 1:
        ctx = mp.get_context("fork")
        with ctx.Pool(nproc) as pool:
            inflight = []
            def over():
                return (wall is not None and time.time() - t0 > wall) or (max_paths is not None and res.paths >= max_paths)
            while (pending or inflight):
                if over():
                    break
                while pending and len(inflight) < nproc * 2:
                    # give each task a slice of the pending prefixes
                    k = max(1, min(len(pending), (len(pending) + nproc * 2 - 1) // (nproc * 2), 64))
                    batch, pending = pending[-k:], pending[:-k]
                    inflight.append(pool.apply_async(_worker, ((batch, chunk, path_wall),)))
                done = [a for a in inflight if a.ready()]
                if not done:
                    time.sleep(0.005)
                    continue
                for a in done:
                    inflight.remove(a)
                    recs, left, stats = a.get()
                    absorb(recs, stats)
                    pending.extend(left)
            if pending or inflight:
                res.exhaustive = False
                res.left = len(pending) + len(inflight)
                pool.terminate()
    else:
        while pending:
            if (wall is not None and time.time() - t0 > wall) or (max_paths is not None and res.paths >= max_paths):
                res.exhaustive = False
                res.left = len(pending)
                break
            recs, pending, stats = run_paths(pending, chunk, harness, path_wall)
            absorb(recs, stats)
    res.wall = time.time() - t0
    return res


class time_limit:
    """nestable wall-clock limit based on ITIMER_REAL; raises WallTimeout inside the block when it expires"""
    _stack: list = []

    def __init__(self, seconds: float):
        self.seconds = seconds
        self.expired = False

    def __enter__(self):
        now = time.time()
        self.deadline = now + self.seconds
        self.outer_left = signal.getitimer(signal.ITIMER_REAL)[0]
        self.t_enter = now
        signal.signal(signal.SIGALRM, _alarm)
        eff = self.seconds if self.outer_left <= 0 else min(self.seconds, self.outer_left)
        signal.setitimer(signal.ITIMER_REAL, max(eff, 0.001))
        return self

    def __exit__(self, et, ev, tb):
        signal.setitimer(signal.ITIMER_REAL, 0)
        now = time.time()
        if self.outer_left > 0:
            left = self.outer_left - (now - self.t_enter)
            signal.setitimer(signal.ITIMER_REAL, max(left, 0.001))
        if et is WallTimeout and now >= self.deadline - 0.002:
            self.expired = True
            return True  # swallow: caller inspects .expired
        return False
