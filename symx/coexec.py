"""symx.coexec — per-rule symbolic co-execution of two generated parser methods with uninterpreted sub-rules (DESIGN §2 C16).

Both method bodies run against a recording `self`: every rule / token / helper call returns a fresh symbol whose
truthiness (and the few comparisons generated code makes) is a z3 Bool decided by the explorer, so the environment is a
nondeterministic stub and the result does not depend on any input length.  On every joint path the two call traces and
the returned action terms must coincide.
"""
from __future__ import annotations

import ast

import z3

from . import core


class Diverged(Exception):
    """trace bound reached (loops in hand-written style generated code are unrolled up to TRACE_BOUND events)"""


TRACE_BOUND = 40


class Ctx:
    def __init__(self, ex):
        self.ex = ex
        self.trace: list = []
        self.decided: dict = {}

    def decide(self, label: str) -> bool:
        if label in self.decided:
            return self.decided[label]
        d = self.ex.branch(z3.Bool(label))
        self.decided[label] = d
        return d


class Sym:
    def __init__(self, ctx, label, truthy=None):
        self.ctx = ctx
        self.label = label
        self._t = truthy

    def __repr__(self):
        return f"<{self.label}>"

    def __bool__(self):
        if self._t is None:
            self._t = self.ctx.decide("bool:" + self.label)
        return self._t

    def __getattr__(self, n):
        if n.startswith("__"):
            raise AttributeError(n)
        return Sym(self.ctx, f"{self.label}.{n}", True)

    def __getitem__(self, i):
        return Sym(self.ctx, f"{self.label}[{i!r}]", True)

    def __call__(self, *a, **k):
        return Sym(self.ctx, f"{self.label}({a!r},{sorted(k.items())!r})", True)

    def __iter__(self):
        yield Sym(self.ctx, f"{self.label}[*0]", True)
        yield Sym(self.ctx, f"{self.label}[*1]", True)

    def __len__(self):
        return 2 if self.ctx.decide("len>1:" + self.label) else 1

    def __add__(self, o):
        return Sym(self.ctx, f"({self.label}+{o!r})", True)

    def __radd__(self, o):
        return Sym(self.ctx, f"({o!r}+{self.label})", True)

    def __or__(self, o):
        return Sym(self.ctx, f"({self.label}|{o!r})", True)

    def __eq__(self, o):
        return self.ctx.decide(f"eq:{self.label}:{o!r}")

    def __ne__(self, o):
        return not self.__eq__(o)

    def __hash__(self):
        return hash(self.label)

    def __ge__(self, o):
        return self.ctx.decide(f"ge:{self.label}:{o!r}")

    def __lt__(self, o):
        return self.ctx.decide(f"lt:{self.label}:{o!r}")

    def __gt__(self, o):
        return self.ctx.decide(f"gt:{self.label}:{o!r}")

    def __le__(self, o):
        return self.ctx.decide(f"le:{self.label}:{o!r}")


class MockFn:
    def __init__(self, owner, name):
        self.owner = owner
        self.name = name

    def __repr__(self):
        return f"<fn {self.name}>"

    def __call__(self, *a, **k):
        ctx = self.owner._c
        ctx.trace.append(("call", self.name, dump(a), dump(sorted(k.items()))))
        idx = len(ctx.trace)
        if idx > TRACE_BOUND:
            raise Diverged()
        if self.name == "_mark":
            return Sym(ctx, f"mark#{idx}", True)
        if self.name == "_reset":
            return None
        if self.name == "span":
            return {"lineno": a[0], "col_offset": a[1], "end_lineno": Sym(ctx, f"endl#{idx}", True), "end_col_offset": Sym(ctx, f"endc#{idx}", True)}
        return Sym(ctx, f"{self.name}#{idx}")


class MockTok:
    def __init__(self, ctx):
        self.ctx = ctx

    def __getattr__(self, n):
        def f(*a):
            self.ctx.trace.append(("tok." + n, dump(a)))
            return Sym(self.ctx, f"tok.{n}#{len(self.ctx.trace)}", True)
        return f


class MockSelf:
    def __init__(self, ctx):
        object.__setattr__(self, "_c", ctx)
        object.__setattr__(self, "_tokenizer", MockTok(ctx))
        object.__setattr__(self, "_attrs", {"call_invalid_rules": Sym(ctx, "call_invalid_rules"), "in_recursive_rule": Sym(ctx, "in_recursive_rule"),
                                            "py_version": Sym(ctx, "py_version", True), "_verbose": False})
        object.__setattr__(self, "_fns", {})

    def __setattr__(self, n, v):
        self._c.trace.append(("set", n, dump(v)))
        self._attrs[n] = v

    def __getattr__(self, n):
        if n in self._attrs:
            return self._attrs[n]
        f = self._fns.get(n)
        if f is None:
            f = self._fns[n] = MockFn(self, n)
        return f


def dump(x):
    if isinstance(x, ast.AST):
        return f"{type(x).__name__}(" + ",".join(f"{k}={dump(v)}" for k, v in sorted(vars(x).items())) + ")"
    if isinstance(x, (list, tuple)):
        return "[" + ",".join(dump(i) for i in x) + "]"
    if isinstance(x, dict):
        return "{" + ",".join(f"{k}:{dump(v)}" for k, v in sorted(x.items())) + "}"
    r = repr(x)
    if " object at 0x" in r and hasattr(x, "__dict__"):
        return f"{type(x).__name__}{{" + ",".join(f"{k}:{dump(v)}" for k, v in sorted(vars(x).items())) + "}"
    return r


def run_one(ex, fn):
    ctx = Ctx(ex)
    ms = MockSelf(ctx)
    try:
        r = dump(fn(ms))
    except core.EngineError:
        raise
    except Diverged:
        r = "BOUND"
    except Exception as e:  # noqa: BLE001
        r = "EXC:" + type(e).__name__ + ":" + str(e)[:80]
    return ctx, r


def co_harness(pairs):
    """pairs: list of (name, fn_shipped, fn_regenerated).  One exploration covers all methods (chosen by a symbolic index)."""
    def harness(ex):
        from .harness import choose_index
        i = choose_index(ex, "method", len(pairs))
        name, fa, fb = pairs[i]
        ca, ra = run_one(ex, fa)
        # the regenerated method runs under the same decisions (labels are positions in the trace)
        cb = Ctx(ex)
        cb.decided = ca.decided
        msb = MockSelf(cb)
        try:
            rb = dump(fb(msb))
        except core.EngineError:
            raise
        except Diverged:
            rb = "BOUND"
        except Exception as e:  # noqa: BLE001
            rb = "EXC:" + type(e).__name__ + ":" + str(e)[:80]
        rec = {"outcome": "equal" if ra != "BOUND" else "equal-up-to-trace-bound", "validated": 1, "viol": [], "w": name}
        if ca.trace != cb.trace or ra != rb:
            k = next((j for j, (x, y) in enumerate(zip(ca.trace, cb.trace)) if x != y), min(len(ca.trace), len(cb.trace)))
            rec["outcome"] = "differs"
            rec["diff"] = {"method": name, "decisions": {k2: v for k2, v in list(ca.decided.items())[:12]},
                           "shipped": (ca.trace[k] if k < len(ca.trace) else ("return", ra[:200])),
                           "regenerated": (cb.trace[k] if k < len(cb.trace) else ("return", rb[:200]))}
        return rec
    return harness
