"""symx.litseeds — literals whose EVALUATION may fail, in every literal position (size limits, bad escapes, non-ASCII bytes,
mixed bytes/str, lone surrogates).  The grammar accepts the token; the action evaluating it is what is exercised."""

BS = chr(92)  # a backslash, so that this file needs no escape gymnastics
BIG = "1" * 4400  # beyond CPython's default limit for int <-> str conversion (4300 digits)

LITERALS_EVAL = [
    BIG, "0x" + "f" * 4400, BIG + "j", "1e999", "1e999j", "0777", "1__0", "0b12", "0o8", "1.e",
    "'" + BS + "x'", "'" + BS + "N{no such}'", "b'" + chr(0xE9) + "'", "b'" + BS + "N{DASH}'", "'" + BS + "ud800'", "'" + BS + "400'",
    "u'" + BS + "U00110000'", "rb'" + BS + BS + "'", "'" + BS + "\n'", "'''" + BS + "x\n'''", "b'a' 'b'", "'a' b'''b\nc'''",
    "f'{1" + BIG + "}'", "p'" + BS + "x'", "pf'{x}" + BS + "N{q}'",
    "'" + chr(0xD800) + "'", "x" + chr(0xDC80) + "y", "f'{x!" + chr(0xD800) + "}'", "p'" + chr(0xDFFF) + "'",
]
LITERAL_CONTEXTS = [
    "@\n", "\n\nf(@)\n", "x = [1,\n     @]\n", "match x:\n    case @: pass\n", "match x:\n    case -@: pass\n", "$(echo @)\n", "f'{@}'\n",
    "x = -@ + 1j\n", "{@: 1}\n", "def f(a=@): pass\n", "with! c:\n    @\n", "g!(@)\n", "x = @ if @ else 0\n",
]


def literal_product():
    return [c.replace("@", e) for c in LITERAL_CONTEXTS for e in LITERALS_EVAL]
