"""symx.pegref — grammars as data, their rendering into the generator's notation, and an independent PEG interpreter
(ordered choice, truthiness convention, cut, forced, gather, lookaheads, seed-growing left recursion) — DESIGN §2 C17.

A grammar is {rule_name: Rule}; Rule(alts, memo); Alt(items, action); items are tuples:
  ("tok", s) | ("NAME",) | ("NUMBER",) | ("rule", r) | ("opt", it) | ("star", it) | ("plus", it) | ("gather", sep, it)
  | ("pos", it) | ("neg", it) | ("cut",) | ("forced", it) | ("group", [Alt, ...])
an item may be named: ("as", name, item).
"""
from __future__ import annotations

import io
import os
import sys
import tempfile


class Alt:
    def __init__(self, items, action=None):
        self.items = items
        self.action = action


class Rule:
    def __init__(self, alts, memo=False):
        self.alts = alts
        self.memo = memo


HEADER = """@class GeneratedParser

@header'''\\
from __future__ import annotations
import ast
import sys
from typing import Any
from peg_parser.subheader import Parser, logger, memoize, memoize_left_rec
'''

@trailer''

"""


def render_item(it):
    k = it[0]
    if k == "as":
        return f"{it[1]}={render_item(it[2])}"
    if k == "tok":
        return repr(it[1])
    if k in ("NAME", "NUMBER"):
        return k
    if k == "rule":
        return it[1]
    if k == "opt":
        return f"[{render_item(it[1])}]"
    if k == "star":
        return f"{render_atom(it[1])}*"
    if k == "plus":
        return f"{render_atom(it[1])}+"
    if k == "gather":
        return f"{render_atom(it[1])}.{render_atom(it[2])}+"
    if k == "pos":
        return f"&{render_atom(it[1])}"
    if k == "neg":
        return f"!{render_atom(it[1])}"
    if k == "cut":
        return "~"
    if k == "forced":
        return f"&&{render_atom(it[1])}"
    if k == "group":
        return "(" + " | ".join(render_alt(a) for a in it[1]) + ")"
    raise ValueError(k)


def render_atom(it):
    s = render_item(it)
    if it[0] in ("opt", "star", "plus", "gather", "pos", "neg", "forced", "as"):
        return f"({s})"
    return s


def render_alt(a):
    s = " ".join(render_item(i) for i in a.items)
    if a.action:
        s += " { " + a.action + " }"
    return s


def render(grammar):
    out = [HEADER]
    for name, r in grammar.items():
        out.append(f"{name}{' (memo)' if r.memo else ''}:")
        for a in r.alts:
            out.append("    | " + render_alt(a))
        out.append("")
    return "\n".join(out)


def generate(grammar_text, repo=None):
    repo = repo or os.environ.get("VERIF_REPO", "/repo")
    """run the working tree's generator on the grammar text; returns the generated module source"""
    if repo not in sys.path:
        sys.path.insert(0, repo)
    for m in [m for m in sys.modules if m == "tasks" or m.startswith(("tasks.", "pegen"))]:
        del sys.modules[m]
    import importlib
    gen_mod = importlib.import_module("tasks.generator")
    from pegen.build import build_parser
    d = tempfile.mkdtemp(prefix="c17_")
    try:
        p = os.path.join(d, "g.gram")
        with open(p, "w") as f:
            f.write(grammar_text)
        grammar, *_ = build_parser(p)
        buf = io.StringIO()
        g = gen_mod.XonshParserGenerator(grammar, buf)
        g.generate(p)
        return buf.getvalue()
    finally:
        import shutil
        shutil.rmtree(d, ignore_errors=True)


# ------------------------------------------------------------------ reference interpreter
class Raised(Exception):
    """a forced token was missing"""


FAIL = object()


def keywords_of(grammar):
    kws = set()

    def walk(it):
        k = it[0]
        if k == "as":
            walk(it[2])
        elif k == "tok":
            if it[1].isidentifier():
                kws.add(it[1])
        elif k in ("opt", "star", "plus", "pos", "neg", "forced"):
            walk(it[1])
        elif k == "gather":
            walk(it[1])
            walk(it[2])
        elif k == "group":
            for a in it[1]:
                for i in a.items:
                    walk(i)
    for r in grammar.values():
        for a in r.alts:
            for i in a.items:
                walk(i)
    return kws


class Interp:
    def __init__(self, grammar, tokens, tokenmod):
        self.g = grammar
        self.toks = tokens
        self.T = tokenmod.Token
        self.kw = keywords_of(grammar)
        self.memo = {}

    # each eval returns (value, newpos) or FAIL
    def rule(self, name, pos):
        key = (name, pos)
        if key in self.memo:
            if key in self.growing:
                self.lr_hit.add(key)      # re-entered at the same position while being evaluated: left recursion
            return self.memo[key]
        # seed growing (Warth et al.): plant a failure, evaluate, and re-evaluate while the match gets longer
        self.memo[key] = FAIL
        self.growing.add(key)
        last = FAIL
        while True:
            self.lr_hit.discard(key)
            for k2 in [k for k in self.memo if k[1] == pos and k not in self.growing]:
                del self.memo[k2]     # results at this position may depend on the previous seed
            res = self.rhs(self.g[name].alts, pos)
            if res is FAIL or (last is not FAIL and res[1] <= last[1]):
                break
            last = res
            self.memo[key] = last
            if key not in self.lr_hit:
                break
        self.growing.discard(key)
        self.memo[key] = last
        return last

    def rhs(self, alts, pos):
        for a in alts:
            r = self.alt(a, pos)
            if r is CUTFAIL:
                return FAIL
            if r is not FAIL:
                return r
        return FAIL

    def alt(self, a, pos):
        env = []
        p = pos
        cut = False
        for idx, it in enumerate(a.items):
            name = None
            if it[0] == "as":
                name, it = it[1], it[2]
            if it[0] == "cut":
                cut = True
                continue
            r = self.item(it, p)
            if r is FAIL:
                return CUTFAIL if cut else FAIL
            v, p = r
            if it[0] not in ("pos", "neg"):
                env.append((name, v))
        if a.action:
            val = eval(a.action, {"__builtins__": {"len": len, "tuple": tuple, "list": list}}, {n: v for n, v in env if n})
        elif len(env) == 1:
            val = env[0][1]
        else:
            val = [v for _, v in env]
        return val, p

    def item(self, it, pos):
        k = it[0]
        toks = self.toks
        if k == "tok":
            t = toks[pos] if pos < len(toks) else None
            if t is not None and t.string == it[1]:
                return t, pos + 1
            return FAIL
        if k == "NAME":
            t = toks[pos] if pos < len(toks) else None
            if t is not None and t.type == self.T.NAME and not any(t.string == kw for kw in sorted(self.kw)):
                return t, pos + 1
            return FAIL
        if k == "NUMBER":
            t = toks[pos] if pos < len(toks) else None
            if t is not None and t.type == self.T.NUMBER:
                return t, pos + 1
            return FAIL
        if k == "rule":
            return self.rule(it[1], pos)
        if k == "opt":
            r = self.item(it[1], pos)
            return (None, pos) if r is FAIL else r
        if k in ("star", "plus"):
            vals = []
            p = pos
            while True:
                r = self.item(it[1], p)
                if r is FAIL or r[1] == p:
                    break
                vals.append(r[0])
                p = r[1]
            if k == "plus" and not vals:
                return FAIL
            return vals, p
        if k == "gather":
            r = self.item(it[2], pos)
            if r is FAIL:
                return FAIL
            vals = [r[0]]
            p = r[1]
            while True:
                s = self.item(it[1], p)
                if s is FAIL:
                    break
                r = self.item(it[2], s[1])
                if r is FAIL:
                    break
                vals.append(r[0])
                p = r[1]
            return vals, p
        if k == "pos":
            r = self.item(it[1], pos)
            return FAIL if r is FAIL else (r[0], pos)
        if k == "neg":
            r = self.item(it[1], pos)
            return (True, pos) if r is FAIL else FAIL
        if k == "forced":
            r = self.item(it[1], pos)
            if r is FAIL:
                raise Raised()
            return r
        if k == "group":
            return self.rhs(it[1], pos)
        raise ValueError(k)

    def run(self, start, pos=0):
        self.growing = set()
        self.lr_hit = set()
        self.memo = {}
        try:
            r = self.rule(start, pos)
        except Raised:
            return ("raise",)
        if r is FAIL:
            return ("fail",)
        return ("ok", r[0], r[1])


CUTFAIL = object()


def to_data(grammar):
    def item(it):
        if it[0] == "group":
            return ["group", [alt(a) for a in it[1]]]
        return [it[0]] + [item(x) if isinstance(x, tuple) else x for x in it[1:]]

    def alt(a):
        return {"items": [item(i) for i in a.items], "action": a.action}
    return {name: {"alts": [alt(a) for a in r.alts], "memo": bool(r.memo)} for name, r in grammar.items()}


def from_data(d):
    def item(it):
        if it[0] == "group":
            return ("group", [alt(a) for a in it[1]])
        return tuple([it[0]] + [item(x) if isinstance(x, list) else x for x in it[1:]])

    def alt(a):
        return Alt([item(i) for i in a["items"]], a["action"])
    return {name: Rule([alt(a) for a in r["alts"]], r["memo"]) for name, r in d.items()}
