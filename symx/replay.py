"""Replay a recorded violation against the unmodified /repo with plain imports (no engine, no z3).

usage: /venv/bin/python /verif/symx/replay.py <replay.json> [--repo /repo]
exit 0: the violation reproduces (prints REPRODUCED + details); exit 4: it does not; exit 5: replay itself failed.
"""
import json
import os
import sys

HERE = os.path.dirname(os.path.abspath(__file__))
sys.path.insert(0, os.path.dirname(HERE))


def main():
    path = sys.argv[1]
    repo = os.environ.get("VERIF_REPO", "/repo")
    if "--repo" in sys.argv:
        repo = sys.argv[sys.argv.index("--repo") + 1]
    with open(path, encoding="utf-8") as f:
        spec = json.load(f)
    import importlib.util
    s = importlib.util.spec_from_file_location("symx_oracles", os.path.join(HERE, "oracles.py"))
    orc = importlib.util.module_from_spec(s)
    s.loader.exec_module(orc)
    try:
        s2 = importlib.util.spec_from_file_location("symx_oracles2", os.path.join(HERE, "oracles2.py"))
        orc2 = importlib.util.module_from_spec(s2)
        sys.modules["symx_oracles"] = orc
        s2.loader.exec_module(orc2)
        table = dict(orc.ORACLES)
        table.update(orc2.ORACLES)
    except FileNotFoundError:
        table = dict(orc.ORACLES)
    X = orc.load_real(repo)
    fn = table[spec["oracle"]]
    try:
        v = fn(X, *spec.get("args", []), **spec.get("kwargs", {}))
    except Exception as e:  # noqa: BLE001
        print("REPLAY-ERROR", type(e).__name__, e)
        sys.exit(5)
    if v is None:
        print("NOT-REPRODUCED")
        sys.exit(4)
    try:   # the full verdict of THIS run, for the caller (the verdict seen during exploration may have been a different one)
        with open(path + ".verdict", "w", encoding="utf-8") as f:
            json.dump(v, f, default=repr, ensure_ascii=True)
    except OSError:
        pass
    print("REPRODUCED", json.dumps(v, default=repr, ensure_ascii=True)[:2000])
    sys.exit(0)


if __name__ == "__main__":
    main()
