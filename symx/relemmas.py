"""symx.relemmas — unbounded z3 lemmas about the tokenizer's regular expressions (DESIGN §2 C09 iii).

The patterns of /repo's tokenize.py and of the running CPython's Lib/tokenize.py are translated from their re._parser
trees into z3 regular expressions; language equality / inclusion is an InRe query over an unconstrained string
(no length bound).  unsat = the languages agree; sat = a distinguishing spelling, returned as witness.
"""
from __future__ import annotations

import re._constants as sc
import re._parser as sp
import time

import z3


class Unsupported(Exception):
    pass


def _cls(items):
    neg = False
    parts = []
    for op, av in items:
        if op is sc.NEGATE:
            neg = True
        elif op is sc.LITERAL:
            parts.append(z3.Re(chr(av)))
        elif op is sc.RANGE:
            parts.append(z3.Range(chr(av[0]), chr(av[1])))
        else:
            raise Unsupported(str(op))
    u = parts[0] if len(parts) == 1 else z3.Union(*parts)
    if neg:
        return z3.Intersect(z3.AllChar(z3.ReSort(z3.StringSort())), z3.Complement(u))
    return u


def tr(seq):
    out = []
    for op, av in seq:
        if op is sc.LITERAL:
            out.append(z3.Re(chr(av)))
        elif op is sc.IN:
            out.append(_cls(av))
        elif op is sc.BRANCH:
            out.append(z3.Union(*[tr(a) for a in av[1]]) if len(av[1]) > 1 else tr(av[1][0]))
        elif op is sc.SUBPATTERN:
            out.append(tr(av[3]))
        elif op in (sc.MAX_REPEAT, sc.MIN_REPEAT):
            lo, hi, sub = av
            r = tr(sub)
            if lo == 0 and hi == sc.MAXREPEAT:
                out.append(z3.Star(r))
            elif lo == 1 and hi == sc.MAXREPEAT:
                out.append(z3.Plus(r))
            elif lo == 0 and hi == 1:
                out.append(z3.Option(r))
            else:
                out.append(z3.Loop(r, lo, hi))
        elif op is sc.NOT_LITERAL:
            out.append(z3.Intersect(z3.AllChar(z3.ReSort(z3.StringSort())), z3.Complement(z3.Re(chr(av)))))
        else:
            raise Unsupported(str(op))
    if not out:
        return z3.Re("")
    return out[0] if len(out) == 1 else z3.Concat(*out)


def lang(pattern: str):
    return tr(sp.parse(pattern))


def equal(pa: str, pb: str, timeout_ms=60000):
    """('valid', None, secs) | ('cex', witness, secs) | ('unknown', reason, secs)"""
    t = time.time()
    try:
        a, b = lang(pa), lang(pb)
    except Unsupported as e:
        return "unknown", f"unsupported regex construct {e}", 0.0
    s = z3.String("s")
    sol = z3.Solver()
    sol.set("timeout", timeout_ms)
    sol.add(z3.InRe(s, a) != z3.InRe(s, b))
    r = sol.check()
    dt = time.time() - t
    if r == z3.unsat:
        return "valid", None, dt
    if r == z3.sat:
        return "cex", sol.model()[s].as_string(), dt
    return "unknown", "solver timeout", dt


def included(pa: str, pb: str, timeout_ms=60000):
    """L(pa) ⊆ L(pb)"""
    t = time.time()
    try:
        a, b = lang(pa), lang(pb)
    except Unsupported as e:
        return "unknown", f"unsupported regex construct {e}", 0.0
    s = z3.String("s")
    sol = z3.Solver()
    sol.set("timeout", timeout_ms)
    sol.add(z3.InRe(s, a), z3.Not(z3.InRe(s, b)))
    r = sol.check()
    dt = time.time() - t
    if r == z3.unsat:
        return "valid", None, dt
    if r == z3.sat:
        return "cex", sol.model()[s].as_string(), dt
    return "unknown", "solver timeout", dt


# ------------------------------------------------------------------ ambiguity of repetitions (catastrophic backtracking)
def _anychar():
    return z3.AllChar(z3.ReSort(z3.StringSort()))


_NONASCII = None


def _cat(av):
    """OVER-approximation of a character category (every candidate it produces is confirmed on the real `re` afterwards)"""
    global _NONASCII
    if _NONASCII is None:
        _NONASCII = z3.Range(chr(0x80), chr(0x2FFFF))
    if av is sc.CATEGORY_DIGIT:
        return z3.Union(z3.Range("0", "9"), _NONASCII)
    if av is sc.CATEGORY_WORD:
        return z3.Union(z3.Range("0", "9"), z3.Range("a", "z"), z3.Range("A", "Z"), z3.Re("_"), _NONASCII)
    if av is sc.CATEGORY_SPACE:
        return z3.Union(*[z3.Re(c) for c in " \t\n\r\f\v"], _NONASCII)
    raise Unsupported(str(av))


def _cls2(items):
    neg = False
    parts = []
    for op, av in items:
        if op is sc.NEGATE:
            neg = True
        elif op is sc.LITERAL:
            parts.append(z3.Re(chr(av)))
        elif op is sc.RANGE:
            parts.append(z3.Range(chr(av[0]), chr(av[1])))
        elif op is sc.CATEGORY:
            if neg:
                raise Unsupported("category inside a negated class")
            parts.append(_cat(av))
        else:
            raise Unsupported(str(op))
    u = parts[0] if len(parts) == 1 else z3.Union(*parts)
    return z3.Intersect(_anychar(), z3.Complement(u)) if neg else u


def tr2(seq):
    """like tr() but total on the tokenizer's constructs by OVER-approximating: look-arounds and anchors are epsilon"""
    out = []
    for op, av in seq:
        if op is sc.LITERAL:
            out.append(z3.Re(chr(av)))
        elif op is sc.NOT_LITERAL:
            out.append(z3.Intersect(_anychar(), z3.Complement(z3.Re(chr(av)))))
        elif op is sc.ANY:
            out.append(z3.Intersect(_anychar(), z3.Complement(z3.Re("\n"))))
        elif op is sc.IN:
            out.append(_cls2(av))
        elif op is sc.BRANCH:
            out.append(z3.Union(*[tr2(a) for a in av[1]]) if len(av[1]) > 1 else tr2(av[1][0]))
        elif op is sc.SUBPATTERN:
            out.append(tr2(av[3]))
        elif op in (sc.MAX_REPEAT, sc.MIN_REPEAT):
            lo, hi, sub = av
            r = tr2(sub)
            if lo == 0 and hi == sc.MAXREPEAT:
                out.append(z3.Star(r))
            elif lo == 1 and hi == sc.MAXREPEAT:
                out.append(z3.Plus(r))
            elif lo == 0 and hi == 1:
                out.append(z3.Option(r))
            elif hi == sc.MAXREPEAT:
                out.append(z3.Concat(z3.Loop(r, lo, lo), z3.Star(r)))
            else:
                out.append(z3.Loop(r, lo, hi))
        elif op in (sc.ASSERT, sc.ASSERT_NOT, sc.AT):
            continue
        else:
            raise Unsupported(str(op))
    if not out:
        return z3.Re("")
    return out[0] if len(out) == 1 else z3.Concat(*out)


def _nonempty(rx, timeout_ms=20000, minlen=1):
    s = z3.String("s")
    sol = z3.Solver()
    sol.set("timeout", timeout_ms)
    sol.add(z3.InRe(s, rx), z3.Length(s) >= minlen)
    r = sol.check()
    if r == z3.sat:
        return "sat", sol.model()[s].as_string()
    return ("unsat", None) if r == z3.unsat else ("unknown", None)


def _zstr(w):
    """python str of a z3 string literal (z3 prints non-printable characters as \\u{..})"""
    import re as _re
    return _re.sub(r"\\u\{([0-9a-fA-F]+)\}", lambda m: chr(int(m.group(1), 16)), w)


def repeats(pattern: str):
    """[(path_prefix_items, node)] for every unbounded repetition of the pattern; path_prefix_items = the items that must match before it"""
    out = []

    def walk(seq, before):
        seq = list(seq)
        for i, (op, av) in enumerate(seq):
            pre = before + seq[:i]
            if op is sc.BRANCH:
                for a in av[1]:
                    walk(a, pre)
            elif op is sc.SUBPATTERN:
                walk(av[3], pre)
            elif op in (sc.MAX_REPEAT, sc.MIN_REPEAT):
                lo, hi, sub = av
                if hi == sc.MAXREPEAT or hi >= 8:
                    out.append((pre, (op, av)))
                walk(sub, pre)
            elif op in (sc.ASSERT, sc.ASSERT_NOT):
                walk(av[1], pre)
    walk(sp.parse(pattern), [])
    return out


def ambiguity(pattern: str, timeout_ms=20000):
    """for every unbounded repetition X* of the pattern decide (z3, no length bound, over-approximated classes):
       (a) two alternatives of X match a common string, (b) some string of L(X) is also in L(X X+).
    Either one makes a failing match explore exponentially many decompositions.  Returns a list of dicts:
    {'node': text, 'status': 'unambiguous'|'ambiguous'|'unknown'|'unsupported', 'witness': w, 'prefix': p, 'queries': n, 'solver_s': t}"""
    res = []
    for pre, (op, av) in repeats(pattern):
        lo, hi, sub = av
        t = time.time()
        q = 0
        entry = {"node": str(sub)[:120].replace("\n", " "), "status": "unambiguous", "witness": None, "prefix": "", "queries": 0}
        try:
            x = tr2(sub)
            alts = None
            items = list(sub)
            while len(items) == 1 and items[0][0] is sc.SUBPATTERN:
                items = list(items[0][1][3])
            if len(items) == 1 and items[0][0] is sc.BRANCH:
                alts = [tr2(a) for a in items[0][1][1]]
            found = None
            if alts:
                for i in range(len(alts)):
                    for j in range(i + 1, len(alts)):
                        q += 1
                        st, w = _nonempty(z3.Intersect(alts[i], alts[j]), timeout_ms)
                        if st == "sat":
                            found = w
                            break
                        if st == "unknown":
                            entry["status"] = "unknown"
                    if found:
                        break
            if not found:
                q += 1
                st, w = _nonempty(z3.Intersect(x, z3.Concat(x, z3.Plus(x))), timeout_ms)
                if st == "sat":
                    found = w
                elif st == "unknown":
                    entry["status"] = "unknown"
            if found:
                entry["status"] = "ambiguous"
                entry["witness"] = _zstr(found)
                try:
                    q += 1
                    st, p = _nonempty(tr2(pre), timeout_ms, minlen=0) if pre else ("sat", "")
                    entry["prefix"] = _zstr(p) if st == "sat" else ""
                except Unsupported:
                    entry["prefix"] = ""
        except Unsupported as e:
            entry["status"] = "unsupported"
            entry["detail"] = str(e)
        entry["queries"] = q
        entry["solver_s"] = round(time.time() - t, 3)
        res.append(entry)
    return res
