"""symx.relemmas — unbounded z3 lemmas about the tokenizer's regular expressions (DESIGN §2 C09 iii).

The patterns of /repo's tokenize.py and of the running CPython's Lib/tokenize.py are translated from their re._parser
trees into z3 regular expressions; language equality / inclusion is an InRe query over an unconstrained string
(no length bound).  unsat = the languages agree; sat = a distinguishing spelling, returned as witness.
"""
from __future__ import annotations

import re._constants as sc
import re._parser as sp
import time

import z3


class Unsupported(Exception):
    pass


def _cls(items):
    neg = False
    parts = []
    for op, av in items:
        if op is sc.NEGATE:
            neg = True
        elif op is sc.LITERAL:
            parts.append(z3.Re(chr(av)))
        elif op is sc.RANGE:
            parts.append(z3.Range(chr(av[0]), chr(av[1])))
        else:
            raise Unsupported(str(op))
    u = parts[0] if len(parts) == 1 else z3.Union(*parts)
    if neg:
        return z3.Intersect(z3.AllChar(z3.ReSort(z3.StringSort())), z3.Complement(u))
    return u


def tr(seq):
    out = []
    for op, av in seq:
        if op is sc.LITERAL:
            out.append(z3.Re(chr(av)))
        elif op is sc.IN:
            out.append(_cls(av))
        elif op is sc.BRANCH:
            out.append(z3.Union(*[tr(a) for a in av[1]]) if len(av[1]) > 1 else tr(av[1][0]))
        elif op is sc.SUBPATTERN:
            out.append(tr(av[3]))
        elif op in (sc.MAX_REPEAT, sc.MIN_REPEAT):
            lo, hi, sub = av
            r = tr(sub)
            if lo == 0 and hi == sc.MAXREPEAT:
                out.append(z3.Star(r))
            elif lo == 1 and hi == sc.MAXREPEAT:
                out.append(z3.Plus(r))
            elif lo == 0 and hi == 1:
                out.append(z3.Option(r))
            else:
                out.append(z3.Loop(r, lo, hi))
        elif op is sc.NOT_LITERAL:
            out.append(z3.Intersect(z3.AllChar(z3.ReSort(z3.StringSort())), z3.Complement(z3.Re(chr(av)))))
        else:
            raise Unsupported(str(op))
    if not out:
        return z3.Re("")
    return out[0] if len(out) == 1 else z3.Concat(*out)


def lang(pattern: str):
    return tr(sp.parse(pattern))


def equal(pa: str, pb: str, timeout_ms=60000):
    """('valid', None, secs) | ('cex', witness, secs) | ('unknown', reason, secs)"""
    t = time.time()
    try:
        a, b = lang(pa), lang(pb)
    except Unsupported as e:
        return "unknown", f"unsupported regex construct {e}", 0.0
    s = z3.String("s")
    sol = z3.Solver()
    sol.set("timeout", timeout_ms)
    sol.add(z3.InRe(s, a) != z3.InRe(s, b))
    r = sol.check()
    dt = time.time() - t
    if r == z3.unsat:
        return "valid", None, dt
    if r == z3.sat:
        return "cex", sol.model()[s].as_string(), dt
    return "unknown", "solver timeout", dt


def included(pa: str, pb: str, timeout_ms=60000):
    """L(pa) ⊆ L(pb)"""
    t = time.time()
    try:
        a, b = lang(pa), lang(pb)
    except Unsupported as e:
        return "unknown", f"unsupported regex construct {e}", 0.0
    s = z3.String("s")
    sol = z3.Solver()
    sol.set("timeout", timeout_ms)
    sol.add(z3.InRe(s, a), z3.Not(z3.InRe(s, b)))
    r = sol.check()
    dt = time.time() - t
    if r == z3.unsat:
        return "valid", None, dt
    if r == z3.sat:
        return "cex", sol.model()[s].as_string(), dt
    return "unknown", "solver timeout", dt
