"""symx.oracles — concrete per-input predicates of the properties.

Stdlib only (no z3): the same functions are evaluated (a) in the checking process on the solver-produced witness
of every path and (b) in a fresh interpreter with plain imports of /repo when a violation is replayed.
Every predicate returns None (holds / outside the property's domain) or a dict describing the violation.
`X` is a namespace with the unmodified modules: X.tokenize, X.tokenizer, X.subheader, X.parser.
"""
from __future__ import annotations

import ast
import io
import os
import signal
import sys
import time
import tokenize as pytok
import types


class _Timeout(BaseException):
    pass


class time_limit:
    def __init__(self, seconds):
        self.seconds = seconds
        self.expired = False

    def _h(self, *a):
        raise _Timeout()

    def __enter__(self):
        self.outer_left = signal.getitimer(signal.ITIMER_REAL)[0]
        self.outer_handler = signal.getsignal(signal.SIGALRM)
        self.t0 = time.time()
        signal.signal(signal.SIGALRM, self._h)
        eff = self.seconds if self.outer_left <= 0 else min(self.seconds, max(self.outer_left - 0.05, 0.01))
        signal.setitimer(signal.ITIMER_REAL, eff)
        return self

    def __exit__(self, et, ev, tb):
        signal.setitimer(signal.ITIMER_REAL, 0)
        signal.signal(signal.SIGALRM, self.outer_handler if self.outer_handler is not None else signal.SIG_DFL)
        if self.outer_left > 0:
            signal.setitimer(signal.ITIMER_REAL, max(self.outer_left - (time.time() - self.t0), 0.001))
        if et is _Timeout:
            self.expired = True
            return True
        return False


class default_recursion:
    """run the code under test with the recursion head-room a caller at top level has (the checking process itself
    raises the limit for its own engine; that must not hide RecursionError in the code under test)"""

    def __enter__(self):
        self.old = sys.getrecursionlimit()
        depth = 0
        f = sys._getframe()
        while f is not None:
            depth += 1
            f = f.f_back
        self.mine = 1000 + depth
        sys.setrecursionlimit(self.mine)
        return self

    def __exit__(self, *a):
        now = sys.getrecursionlimit()
        if now != self.mine:
            INTERPRETER_LEAKS.append(("recursionlimit", self.mine, now))   # the code under test left a process-wide setting changed
        sys.setrecursionlimit(self.old)
        return False


INTERPRETER_LEAKS: list = []


REPO_DEFAULT = os.environ.get("VERIF_REPO", "/repo")   # /repo unless a scratch copy is being examined (tools_seeded --copy)


def load_real(repo=REPO_DEFAULT):
    import importlib
    if repo not in sys.path:
        sys.path.insert(0, repo)
    ns = types.SimpleNamespace()
    for m in ("tokenize", "tokenizer", "subheader", "parser"):
        setattr(ns, m, importlib.import_module(f"peg_parser.{m}"))
    return ns


# ------------------------------------------------------------------ running the real code
def classify(e, X):
    if isinstance(e, SyntaxError):
        return type(e).__name__
    if isinstance(e, X.tokenize.TokenError):
        return "TokenError"
    return "EXC:" + type(e).__name__


def run_tokens(X, src, wall=3.0):
    toks = []
    tl = time_limit(wall)
    with tl, default_recursion():
        try:
            for t in X.tokenize.generate_tokens(src):
                toks.append(t)
            return "ok", toks
        except RecursionError as e:
            return "EXC:RecursionError", (e, toks)
        except Exception as e:  # noqa: BLE001
            return classify(e, X), (e, toks)
    return "HANG", toks


def safe_tokens(X, src, wall=2.0):
    """token list of the unmodified tokenizer, or None when it fails or does not finish (never hangs the caller)"""
    k, toks = run_tokens(X, src, wall)
    if k == "HANG":     # a loaded machine is not a hang: confirm with a much larger limit
        k, toks = run_tokens(X, src, wall * 10)
    return toks if k == "ok" else None


def run_parse(X, src, mode="exec", wall=5.0, **kw):
    tl = time_limit(wall)
    with tl, default_recursion():
        try:
            tree = X.parser.XonshParser.parse_string(src, mode=mode, **kw)
            return ("ok" if tree is not None else "None"), tree
        except RecursionError as e:
            return "EXC:RecursionError", e
        except Exception as e:  # noqa: BLE001
            return classify(e, X), e
    return "HANG", None


def dump(tree):
    try:
        return ast.dump(tree, include_attributes=True)
    except Exception as e:  # noqa: BLE001   a malformed tree (e.g. None where a list is required) cannot even be dumped
        return f"<undumpable tree: {type(e).__name__}: {e}>"


def exc_sig(e):
    if isinstance(e, SyntaxError):
        return (type(e).__name__, e.msg, e.filename, e.lineno, e.offset, e.text, e.end_lineno, e.end_offset)
    return (type(e).__name__, tuple(repr(a) for a in e.args))


# ------------------------------------------------------------------ CPython side
def cpy_parse(src, mode):
    """('ok', tree) | ('SyntaxError', e) | ('other', e)"""
    import warnings
    try:
        with warnings.catch_warnings():
            warnings.simplefilter("ignore")
            return "ok", ast.parse(src, mode=mode)
    except SyntaxError as e:
        return "SyntaxError", e
    except (ValueError, RecursionError, MemoryError, OverflowError) as e:
        return "other", e


def cpy_tokens(src):
    try:
        return "ok", list(pytok.generate_tokens(io.StringIO(src).readline))
    except (pytok.TokenError, SyntaxError, IndentationError, UnicodeDecodeError, ValueError) as e:
        return "error", e


XONSH_ONLY_OPS = {"!", "$", "?", "??", "||", "&&", "@(", "!(", "![", "$(", "$[", "${", "@$(", ">&"}


def has_fstring(src):
    k, toks = cpy_tokens(src)
    if k != "ok":
        return "f'" in src.lower() or 'f"' in src.lower()
    return any(t.type == pytok.FSTRING_START for t in toks)


def py_domain(src):
    """C01's domain restrictions other than 'CPython accepts' (None = inside)"""
    if "\x00" in src or "\ufeff" in src:
        return "BOM/NUL"
    k, toks = cpy_tokens(src)
    if k != "ok":
        return "cpython-tokenize-rejects"
    depth = 0
    prev = None
    for t in toks:
        if t.type == pytok.FSTRING_START:
            return "f-string"
        if t.type == pytok.OP:
            if t.string in "([{":
                depth += 1
                if depth > 50:
                    return "nesting>50"
            elif t.string in ")]}":
                depth -= 1
            if t.string == "(" and prev is not None and prev.type == pytok.OP and prev.string == "@" and prev.end == t.start:
                return "@( digraph"
        prev = t
    return None


def _byte_to_char_cols(tree, src):
    """CPython reports UTF-8 byte columns; produce a copy of the tree with character columns"""
    lines = src.splitlines(keepends=True)
    # ast uses universal-newline-ish splitting of its own; use the same as ast.get_source_segment
    lines = ast._splitlines_no_ff(src) if hasattr(ast, "_splitlines_no_ff") else lines
    enc = [ln.encode("utf-8") for ln in lines]
    import copy
    tree = copy.deepcopy(tree)
    for n in ast.walk(tree):
        for la, ca in (("lineno", "col_offset"), ("end_lineno", "end_col_offset")):
            ln = getattr(n, la, None)
            co = getattr(n, ca, None)
            if ln is not None and co is not None and 1 <= ln <= len(enc):
                try:
                    setattr(n, ca, len(enc[ln - 1][:co].decode("utf-8")))
                except UnicodeDecodeError:
                    pass
    return tree


def first_diff(a, b, n=60):
    i = 0
    m = min(len(a), len(b))
    while i < m and a[i] == b[i]:
        i += 1
    return {"at": i, "ours": a[max(0, i - n):i + n], "cpython": b[max(0, i - n):i + n]}


_lone_cr_guard: list = []


def c01(X, src, mode="exec"):
    ck, ref = cpy_parse(src, mode)
    if ck != "ok":
        return None
    why = py_domain(src)
    if why:
        return None
    import re as _re
    lone_cr = False
    if _re.search(r"\r(?!\n)", src) and not _lone_cr_guard:
        # the known deviation is "a lone CR is not a line end": it explains this input if the same text with "\n"
        # in place of each lone CR is handled correctly
        _lone_cr_guard.append(1)
        try:
            lone_cr = c01(X, _re.sub(r"\r(?!\n)", "\n", src), mode) is None
        finally:
            _lone_cr_guard.pop()
    kind, tree = run_parse(X, src, mode)
    if kind != "ok":
        sig = exc_sig(tree) if isinstance(tree, BaseException) else None
        v = {"kind": "rejects-valid-python", "observed": [kind, sig], "expected": "tree equal to ast.parse"}
        if lone_cr:
            v["feature"] = "lone-cr-newline"
        elif isinstance(tree, SyntaxError) and tree.msg == "too many nested constructs":
            v["feature"] = "recursion-limit"
        return v
    a, b = dump(tree), dump(ref)
    if a == b:
        return None
    if lone_cr:
        return {"kind": "tree-differs", "feature": "lone-cr-newline", "diff": first_diff(a, b)}
    if not src.isascii():
        ref2 = _byte_to_char_cols(ref, src)
        b2 = dump(ref2)
        if a == b2:
            return {"kind": "tree-differs", "feature": "nonascii-char-columns", "diff": first_diff(a, b)}
        # PEP 3131: CPython NFKC-normalises identifiers; if that alone (besides the columns) explains the difference it is KF-C01-4
        if dump(nfkc_identifiers(tree)) == b2 or dump(nfkc_identifiers(tree)) == b:
            return {"kind": "tree-differs", "feature": "identifier-not-nfkc", "diff": first_diff(a, b)}
    return {"kind": "tree-differs", "diff": first_diff(a, b)}


def nfkc_identifiers(tree):
    """a copy of the tree with every identifier (every str field except a Constant's value / kind) in NFKC form"""
    import copy
    import unicodedata
    t = copy.deepcopy(tree)
    for n in ast.walk(t):
        if isinstance(n, ast.Constant):
            continue
        for f, v in ast.iter_fields(n):
            if isinstance(v, str) and not v.isascii():
                setattr(n, f, unicodedata.normalize("NFKC", v))
            elif isinstance(v, list) and v and all(isinstance(x, str) for x in v):
                setattr(n, f, [unicodedata.normalize("NFKC", x) for x in v])
    return t


def python_lexicon_only(X, src):
    """every token our tokenizer produces is a Python lexeme (C02's premise); None if it cannot be tokenized"""
    kind, toks = run_tokens(X, src)
    if kind != "ok":
        return None
    T = X.tokenize.Token
    for t in toks:
        if t.type == T.OP and t.string in XONSH_ONLY_OPS:
            return False
        if t.type == T.SEARCH_PATH:
            return False
        if t.type == T.ERRORTOKEN and t.string in "$?!`":
            return False
        if t.type in (T.STRING, T.FSTRING_START):
            pre = ""
            for ch in t.string:
                if ch in "'\"":
                    break
                pre += ch
            if "p" in pre.lower():
                return False
    return True


def c02(X, src, mode="exec"):
    if "\x00" in src or "\ufeff" in src:
        return None   # CPython refuses the character itself; not a question of syntax
    ck, ref = cpy_parse(src, mode)
    if ck != "SyntaxError":
        return None
    for bad in ("$", "?", "`", "&&", "||", "@("):
        if bad in src:
            # may only occur inside string/comment tokens
            if python_lexicon_only(X, src) is not True:
                return None
            break
    if "!" in src and python_lexicon_only(X, src) is not True:
        return None
    if python_lexicon_only(X, src) is False:
        return None
    kind, tree = run_parse(X, src, mode)
    if kind == "ok":
        v = {"kind": "over-acceptance", "observed": dump(tree)[:300],
             "expected": f"rejection (CPython: {ref.msg!r} at {ref.lineno}:{ref.offset})"}
        tk, toks = run_tokens(X, src)
        if tk == "ok" and any(t.type == X.tokenize.Token.ERRORTOKEN and t.string.isspace() for t in toks):
            v["feature"] = "whitespace-like-character-skipped"
        elif tk == "ok" and any(t.type == X.tokenize.Token.NAME and not t.string.isidentifier() for t in toks):
            v["feature"] = "non-identifier-name"
        elif str(ref.msg).startswith("inconsistent use of tabs"):
            v["feature"] = "tab-consistency"
        elif str(ref.msg).startswith("f-string") and tk == "ok" and any(t.type == X.tokenize.Token.FSTRING_START for t in toks):
            v["feature"] = "fstring-diagnostic"
        elif _lone_cr_re.search(src) and run_parse(X, _lone_cr_re.sub("\n", src), mode)[0] != "ok":
            # a lone CR is a line end for CPython and not for parse_string (KF-C01-2): with "\n" in its place both reject
            v["feature"] = "lone-cr-newline"
        return v
    return None


import re as _re_cr
_lone_cr_re = _re_cr.compile(r"\r(?!\n)")


ALLOWED_C03 = ("ok", "SyntaxError", "IndentationError", "TokenError")


def c03(X, src, mode="exec", **kw):
    """totality of tokenizing and of parsing"""
    kind, payload = run_tokens(X, src)
    if kind not in ALLOWED_C03:
        e = payload[0] if isinstance(payload, tuple) else None
        return {"kind": "tokenizer-" + kind, "observed": exc_sig(e) if e else kind, "expected": "token list or TokenError/SyntaxError"}
    kind, payload = run_parse(X, src, mode, **kw)
    if kind not in ALLOWED_C03 or (kind == "ok" and not isinstance(payload, (ast.Module, ast.Expression))):
        return {"kind": "parser-" + kind, "observed": exc_sig(payload) if isinstance(payload, BaseException) else kind,
                "expected": "ast.Module/ast.Expression or SyntaxError/TokenError"}
    return None


# ------------------------------------------------------------------ C04
_STORE_PARENTS = {
    "Assign": ("targets",), "AnnAssign": ("target",), "AugAssign": ("target",), "For": ("target",), "AsyncFor": ("target",),
    "comprehension": ("target",), "withitem": ("optional_vars",), "NamedExpr": ("target",), "TypeAlias": ("name",),
}


def _expected_ctx(tree):
    """map id(node) -> expected ctx class name for every node having a ctx field"""
    exp = {}

    def mark(n, ctx):
        if n is None:
            return
        if isinstance(n, (ast.Tuple, ast.List)):
            exp[id(n)] = ctx
            for e in (n.elts if isinstance(n.elts, list) else ()):
                mark(e, ctx)
        elif isinstance(n, ast.Starred):
            exp[id(n)] = ctx
            mark(n.value, ctx)
        elif hasattr(n, "ctx"):
            exp[id(n)] = ctx
    for n in ast.walk(tree):
        fields = _STORE_PARENTS.get(type(n).__name__)
        if fields:
            for f in fields:
                v = getattr(n, f, None)
                for x in (v if isinstance(v, list) else [v]):
                    mark(x, "Store")
        if isinstance(n, ast.Delete):
            for x in n.targets:
                mark(x, "Del")
    return exp


_SPANNED = (ast.stmt, ast.expr)


def _asdl_fields():
    """{node class name: {field: '*' | '?' | ''}} read from the ASDL signatures CPython puts into the class docstrings"""
    import re as _re
    out = {}
    for name in dir(ast):
        cls = getattr(ast, name)
        if not (isinstance(cls, type) and issubclass(cls, ast.AST)) or not cls.__doc__:
            continue
        for m in _re.finditer(r"(\w+)\(([^)]*)\)", cls.__doc__):
            if m.group(1) != name:
                continue
            fields = {}
            for part in m.group(2).split(","):
                part = part.strip()
                mm = _re.match(r"(\w+)([*?]?)\s+(\w+)", part)
                if mm:
                    fields[mm.group(3)] = mm.group(2)
            out[name] = fields
    return out


_ASDL = None


def structure_violations(tree, src=None):
    global _ASDL
    if _ASDL is None:
        _ASDL = _asdl_fields()
    out = []
    exp = _expected_ctx(tree)
    nlines = None
    lines = None
    if src is not None:
        lines = read_lines(src) or [""]
        nlines = len(lines)
    for n in ast.walk(tree):
        tn = type(n).__name__
        spec = _ASDL.get(tn, {})
        for f in n._fields:
            kind = spec.get(f, "")
            if not hasattr(n, f):
                if kind == "":
                    out.append(f"{tn}.{f} missing")
                continue
            v = getattr(n, f)
            if kind == "*":
                if not isinstance(v, list):
                    out.append(f"{tn}.{f} is {type(v).__name__}, list required")
                elif tn != "Dict" and f not in ("kw_defaults",) and any(x is None for x in v):
                    out.append(f"{tn}.{f} contains None")
                elif any(isinstance(x, (tuple, list)) for x in v):
                    out.append(f"{tn}.{f} contains a {type([x for x in v if isinstance(x, (tuple, list))][0]).__name__}")
            elif kind == "" and v is None and f not in ("value", "kind") and tn not in ("Constant",):
                out.append(f"{tn}.{f} is None but required")
            elif isinstance(v, (tuple,)) and f != "value":
                out.append(f"{tn}.{f} is a tuple")
        if "ctx" in n._fields:
            want = exp.get(id(n), "Load")
            got = type(getattr(n, "ctx", None)).__name__
            if got != want:
                out.append(f"{tn} ctx {got}, expected {want} (line {getattr(n, 'lineno', '?')})")
        if isinstance(n, _SPANNED):
            attrs = [getattr(n, a, None) for a in ("lineno", "col_offset", "end_lineno", "end_col_offset")]
            if any(not isinstance(a, int) or isinstance(a, bool) for a in attrs):
                out.append(f"{tn} incomplete span {attrs}")
                continue
            l0, c0, l1, c1 = attrs
            if (l0, c0) > (l1, c1):
                out.append(f"{tn} span start {l0}:{c0} after end {l1}:{c1}")
            if l0 < 1 or c0 < 0:
                out.append(f"{tn} span start {l0}:{c0} outside source")
            if nlines is not None:
                if l1 > nlines + 1 or (l1 <= nlines and c1 > len(lines[l1 - 1]) + 1):
                    out.append(f"{tn} span end {l1}:{c1} outside source")
    return out


def c04(X, src, mode="exec", translation=None):
    kind, tree = run_parse(X, src, mode)
    if kind != "ok":
        return None
    sv = structure_violations(tree, src)
    if sv:
        return {"kind": "malformed-tree", "observed": sv[:5], "expected": "complete spans, list fields, Store/Del/Load contexts"}
    import warnings
    try:
        with warnings.catch_warnings():
            warnings.simplefilter("ignore")
            compile(tree, "<verif>", "exec" if mode == "exec" else "eval")
    except (TypeError, ValueError) as e:
        return {"kind": "compile-" + type(e).__name__, "observed": str(e)[:200], "expected": "compile() accepts the tree"}
    except SyntaxError as e:
        # allowed only if the written-out Python fails the same way
        text = translation
        if text is None:
            try:
                text = ast.unparse(tree)
            except Exception as e2:  # noqa: BLE001
                return {"kind": "unparse-fails", "observed": repr(e2)[:200], "expected": "tree can be written out"}
        try:
            with warnings.catch_warnings():
                warnings.simplefilter("ignore")
                compile(text, "<verif>", "exec" if mode == "exec" else "eval")
        except SyntaxError:
            return None   # the written-out Python is rejected as well
        return {"kind": "compile-rejects-tree-only", "observed": e.msg, "expected": "written-out Python compiles"}
    except RecursionError:
        return None
    return None


# ------------------------------------------------------------------ C08 / C09
def _plain_in(a, b):
    return a in b


def read_lines(src):
    lines = []
    rl = io.StringIO(src).readline
    while True:
        ln = rl()
        if not ln:
            break
        lines.append(ln)
    return lines


def tiling(T, toks, lines, vin=_plain_in):
    """C08's predicate on a finished token stream; written with ==, slicing and `vin` only so that it also runs on proxies"""
    def char_at(ln, col):
        return lines[ln - 1][col]

    def text_between(a, b):
        (l0, c0), (l1, c1) = a, b
        if l0 > len(lines):
            return ""
        if l0 == l1:
            return lines[l0 - 1][c0:c1]
        out = lines[l0 - 1][c0:]
        for k in range(l0, l1 - 1):
            out = out + lines[k]
        if l1 <= len(lines):
            out = out + lines[l1 - 1][:c1]
        return out

    def gap_problem(a, b):
        """text from a to b may only be line-leading blanks or backslash-newline"""
        (ln, col), (l1, c1) = a, b
        run_ok = None
        while (ln, col) < (l1, c1):
            if ln > len(lines):
                return None
            line = lines[ln - 1]
            if col >= len(line):
                ln, col, run_ok = ln + 1, 0, None
                continue
            ch = line[col]
            if vin(ch, " \t\f"):
                if run_ok is None:
                    run_ok = col == 0
                if not run_ok:
                    return (ln, col)
                col += 1
            elif ch == "\\":
                rest = line[col + 1:]
                if rest == "\n" or rest == "\r\n":
                    ln, col, run_ok = ln + 1, 0, None
                else:
                    return (ln, col)
            elif vin(ch, "\r\n") and run_ok:
                # blank line remainder is covered by an NL token normally; reaching here means it is uncovered
                return (ln, col)
            else:
                return (ln, col)
        return None

    if not toks or toks[-1].type != T.ENDMARKER:
        return {"kind": "no-final-ENDMARKER", "observed": repr(toks[-1:]), "expected": "stream ends with ENDMARKER"}
    if sum(1 for t in toks if t.type == T.ENDMARKER) != 1:
        return {"kind": "several-ENDMARKER", "observed": "", "expected": "single ENDMARKER"}
    if sum(1 for t in toks if t.type == T.INDENT) != sum(1 for t in toks if t.type == T.DEDENT):
        return {"kind": "indent-dedent-imbalance", "observed": "", "expected": "INDENT and DEDENT balance"}
    pos = (1, 0)
    open_line = False
    newline_since_sig = True
    for i, t in enumerate(toks):
        st, en = tuple(t.start), tuple(t.end)
        virtual = t.type in (T.DEDENT, T.ENDMARKER) or (t.type == T.NEWLINE and len(t.string) == 0)
        if t.type == T.DEDENT and i + 1 < len(toks) and toks[i + 1].type not in (T.DEDENT, T.ENDMARKER) and tuple(toks[i + 1].start) < st:
            # ordering only (the property asks for non-decreasing positions): a DEDENT on a bare backslash line precedes the token of a later line
            return {"kind": "overlap-or-disorder", "observed": f"DEDENT #{i} at {st} but the next token starts at {tuple(toks[i + 1].start)}",
                    "expected": "a DEDENT is not placed behind the token that follows it"}
        if not virtual:
            if st > en:
                return {"kind": "start-after-end", "observed": f"token {i} {t.type.name} {st}-{en}", "expected": "start <= end"}
            if st < pos:
                return {"kind": "overlap-or-disorder", "observed": f"token {i} {t.type.name} starts {st} before {pos}",
                        "expected": "non-decreasing, non-overlapping positions"}
            if text_between(st, en) != t.string:
                return {"kind": "text-not-source-slice", "observed": f"token {i} {t.type.name} at {st}-{en}",
                        "expected": "token text equals the source slice"}
            bad = gap_problem(pos, st)
            if bad is not None:
                return {"kind": "uncovered-text", "observed": f"character at {bad} before token {i} {t.type.name} at {st}",
                        "expected": "only line-leading indentation or backslash-newline outside tokens"}
            pos = en
        if t.type == T.NEWLINE:
            # a NEWLINE with no open logical line is not excluded by the property's wording (C09 compares against CPython)
            open_line = False
        elif t.type in (T.INDENT, T.DEDENT, T.ENDMARKER):
            if open_line:
                return {"kind": "logical-line-without-NEWLINE", "observed": f"{t.type.name} #{i} at {st} while a logical line is open",
                        "expected": "exactly one NEWLINE per logical line"}
        elif t.type not in (T.NL, T.COMMENT, T.WS) and not (t.type == T.ERRORTOKEN and t.string.isspace()):
            open_line = True
    end = (len(lines), len(lines[-1])) if lines else (1, 0)
    bad = gap_problem(pos, end)
    if bad is not None:
        return {"kind": "uncovered-tail", "observed": f"character at {bad} after the last token", "expected": "all text tokenized"}
    return None


def c08(X, src):
    kind, toks = run_tokens(X, src)
    if kind != "ok":
        return None
    return tiling(X.tokenize.Token, toks, read_lines(src))


import re as _re_mod
_NUMBER_RE = _re_mod.compile(pytok.Number)


def c09(X, src):
    """significant tokens equal CPython's tokenize on sources it accepts"""
    if "\x00" in src or "\ufeff" in src:
        return None
    k, ref = cpy_tokens(src)
    if k != "ok":
        return None
    # domain: Python sources and token-level fragments of them - not text that contains xonsh-only lexemes
    prev = None
    for t in ref:
        if t.string in ("$", "?", "!", "`", "<>") and t.type in (pytok.OP, pytok.ERRORTOKEN):
            return None   # ('<>' is the barry_as_FLUFL operator, not ordinary Python)
        if prev is not None and prev.type == pytok.OP and t.type == pytok.OP and prev.end == t.start \
                and (prev.string, t.string) in (("&", "&"), ("|", "|"), (">", "&"), ("|", "|="), ("&", "&="), (">", "&=")):
            return None
        if t.type == pytok.NAME and not t.string.isidentifier():
            return None   # the C tokenizer is lenient about non-ASCII characters; the parser rejects them later
        if t.type == pytok.ERRORTOKEN:
            return None
        if t.type == pytok.NUMBER and not _NUMBER_RE.fullmatch(t.string):
            return None   # lenient C tokenizer: spellings such as 08 or 1__0 are rejected by the parser
        prev = t
    # domain: CPython 3.12.1 reports byte-derived columns for a multi-line token after a non-ASCII char
    if not src.isascii():
        for t in ref:
            if t.start[0] != t.end[0]:
                first = src.split("\n")[t.start[0] - 1] if t.start[0] - 1 < len(src.split("\n")) else ""
                if not first.isascii() or not t.string.isascii():
                    return None     # ... and derives the END column of a multi-line token from bytes when the token itself holds non-ASCII text
    kind, toks = run_tokens(X, src)
    if kind != "ok":
        e = toks[0] if isinstance(toks, tuple) else None
        # CPython's tokenize accepts but ast.parse may reject; only compare when ast.parse accepts
        if cpy_parse(src, "exec")[0] != "ok":
            return None
        return {"kind": "rejects-tokenizable", "observed": [kind, exc_sig(e) if e else None], "expected": "same tokens as CPython"}
    T = X.tokenize.Token
    ours = []
    for t in toks:
        if t.type in (T.WS, T.COMMENT, T.NL):
            continue
        if t.type in (T.STRING, T.FSTRING_START):
            pre = t.string[: min(i for i in (t.string.find("'"), t.string.find('"')) if i >= 0)]
            if "p" in pre.lower():
                return None   # p-strings are xonsh-only lexemes (a NAME glued to a string is never valid Python)
        ours.append((t.type.name, t.string, tuple(t.start), tuple(t.end)))
    theirs = []
    for t in ref:
        if t.type in (pytok.COMMENT, pytok.NL):
            continue
        name = pytok.tok_name[t.type]
        theirs.append((name, t.string, tuple(t.start), tuple(t.end)))
    # '@(' digraph: merge CPython's '@' '(' when adjacent
    merged = []
    for x in theirs:
        if merged and x[0] == "OP" and x[1] == "(" and merged[-1][0] == "OP" and merged[-1][1] == "@" and merged[-1][3] == x[2]:
            merged[-1] = ("OP", "@(", merged[-1][2], x[3])
        else:
            merged.append(x)
    theirs = merged
    if cpy_parse(src, "exec")[0] != "ok" and cpy_parse(src, "eval")[0] != "ok":
        # token-level fragments CPython tokenizes but does not parse: compare only types+strings of the common prefix
        pass

    def norm(x):
        name, s, a, b = x
        if name in ("NEWLINE", "ENDMARKER", "DEDENT", "INDENT"):
            return (name, "", None, None)   # the property fixes their place in the sequence, not their coordinates
        return x
    no = [norm(x) for x in ours]
    nt = [norm(x) for x in theirs]
    if no != nt:
        import re as _re
        feat = {"feature": "lone-cr-newline"} if _re.search(r"\r(?!\n)", src) else {}
        for i, (a, b) in enumerate(zip(no, nt)):
            if a != b:
                return {"kind": "token-differs", "observed": f"#{i} ours {a}", "expected": f"cpython {b}", **feat}
        return {"kind": "token-count-differs", "observed": f"ours {len(no)} tokens; tail {no[len(nt):][:3]}",
                "expected": f"cpython {len(nt)} tokens; tail {nt[len(no):][:3]}", **feat}
    return None


# ------------------------------------------------------------------ C11
def c11(X, src, mode="exec", **kw):
    kind, e = run_parse(X, src, mode, **kw)
    if kind not in ("SyntaxError", "IndentationError"):
        return None
    return syntax_error_violation(e, src)


def syntax_error_violation(e, src):
    lines = []
    rl = io.StringIO(src).readline
    while True:
        ln = rl()
        if not ln:
            break
        lines.append(ln)
    nlines = max(len(lines), 1)
    probs = []
    if not e.msg or not isinstance(e.msg, str):
        probs.append(f"msg {e.msg!r}")
    if not e.filename:
        probs.append(f"filename {e.filename!r}")
    if not isinstance(e.lineno, int) or not (1 <= e.lineno <= nlines + 1):
        probs.append(f"lineno {e.lineno!r} not in 1..{nlines + 1}")
    else:
        line = lines[e.lineno - 1] if e.lineno <= len(lines) else ""
        body = line.rstrip("\r\n")
        if not isinstance(e.offset, int) or not (1 <= e.offset <= len(line) + 1):
            probs.append(f"offset {e.offset!r} not in 1..{len(line) + 1}")
        if e.end_lineno is None or e.end_offset is None:
            probs.append(f"end position missing ({e.end_lineno!r},{e.end_offset!r})")
        elif isinstance(e.offset, int) and (e.end_lineno, e.end_offset) < (e.lineno, e.offset):
            probs.append(f"end {e.end_lineno}:{e.end_offset} before start {e.lineno}:{e.offset}")
        if not isinstance(e.text, str):
            probs.append(f"text {e.text!r}")
        elif not e.text.startswith(body) and not (e.lineno == nlines + 1 and e.text == ""):
            probs.append(f"text {e.text[:40]!r} does not begin with source line {e.lineno} {body[:40]!r}")
    if probs:
        return {"kind": "malformed-syntax-error", "observed": probs, "expected": "msg, filename, 1<=lineno<=lines+1, 1<=offset<=len+1, end>=start, text starts with the line",
                "error": repr(exc_sig(e))[:300]}
    return None


# ------------------------------------------------------------------ C14
def _shift(tree_body, n):
    for st in tree_body:
        for node in ast.walk(st):
            if hasattr(node, "lineno") and node.lineno is not None:
                node.lineno += n
            if hasattr(node, "end_lineno") and node.end_lineno is not None:
                node.end_lineno += n
    return tree_body


def c14(X, a, b):
    ka, ta = run_parse(X, a, "exec")
    kb, tb = run_parse(X, b, "exec")
    if ka != "ok" or kb != "ok" or not a.endswith("\n") or not b.endswith("\n"):
        return None
    kab, tab = run_parse(X, a + b, "exec")
    if kab != "ok":
        return {"kind": "concatenation-rejected", "observed": [kab, exc_sig(tab) if isinstance(tab, BaseException) else None],
                "expected": "body(A) ++ shift(body(B))"}
    nl = a.count("\n")
    want = [dump(s) for s in ta.body] + [dump(s) for s in _shift(tb.body, nl)]
    got = [dump(s) for s in tab.body]
    if want != got:
        for i, (g, w) in enumerate(zip(got, want)):
            if g != w:
                return {"kind": "body-differs", "observed": first_diff(g, w), "stmt": i, "expected": "body(A) ++ shift(body(B))"}
        return {"kind": "body-length-differs", "observed": len(got), "expected": len(want)}
    return None


# ------------------------------------------------------------------ C15
def outcome_obs(kind, payload):
    if kind == "ok":
        return ("ok", dump(payload))
    if isinstance(payload, BaseException):
        return (kind, exc_sig(payload))
    return (kind,)


def c15(X, src, mode="exec"):
    import contextlib
    base = outcome_obs(*run_parse(X, src, mode))
    with contextlib.redirect_stdout(io.StringIO()):
        verb = outcome_obs(*run_parse(X, src, mode, verbose=True, wall=20.0))
    if verb != base:
        return {"kind": "verbose-changes-outcome", "observed": repr(verb)[:300], "expected": repr(base)[:300]}
    prev_ok = None
    for minor in range(8, 14):
        o = outcome_obs(*run_parse(X, src, mode, py_version=(3, minor)))
        if o == base:
            prev_ok = minor if prev_ok is None else prev_ok
            continue
        if prev_ok is not None:
            return {"kind": "py_version-not-monotone", "observed": f"(3,{minor}) gives {repr(o)[:200]} although (3,{prev_ok}) equals default",
                    "expected": "identical result at and above the needed version"}
        # must be a SyntaxError naming a required version above (3,minor)
        ok = False
        if o[0] == "SyntaxError":
            import re as _re
            m = _re.search(r"Python \((\d+), (\d+)\)", str(o[1][1]))
            if m and (int(m.group(1)), int(m.group(2))) > (3, minor):
                ok = True
        if not ok:
            return {"kind": "py_version-changes-outcome", "observed": f"(3,{minor}): {repr(o)[:200]}", "expected": repr(base)[:200]}
    if sys.version_info >= (3, 12) and prev_ok is None and base[0] == "ok":
        return {"kind": "py_version-never-default", "observed": "no version reproduces the default", "expected": repr(base)[:100]}
    return None


ORACLES = {"c01": c01, "c02": c02, "c03": c03, "c04": c04, "c08": c08, "c09": c09, "c11": c11, "c14": c14, "c15": c15}
