"""symx.filemodel — a model of CPython's text-mode `open()` for symbolic file contents (DESIGN §2 C12).

Documented semantics modelled: decoding with `encoding` or, when it is None, the locale's preferred encoding (a symbolic
choice between utf-8 and ascii: ascii refuses non-ASCII characters with UnicodeDecodeError); universal-newline translation
when newline is None ('\\r\\n' and lone '\\r' become '\\n'); readline / iteration by lines.  The model is a stub and part of
the claim; every disagreement it produces is replayed with a real file in child interpreters.
"""
from __future__ import annotations

from . import chars, core
from .chars import SymStr

FILES: dict = {}


class FakePath:
    def __init__(self, name, content):
        self._name = name
        FILES[str(self)] = content

    @property
    def name(self):
        return self._name

    def __str__(self):
        return "/symx-virtual/" + self._name

    def __fspath__(self):
        return str(self)


def _translate(content):
    """universal newlines on a SymStr / str: returns SymStr/str with \\r\\n and lone \\r replaced by \\n"""
    if isinstance(content, str):
        return content.replace("\r\n", "\n").replace("\r", "\n")
    out = []
    e = content.e
    i = 0
    n = len(e)
    is_cr = lambda ch: ch == "\r"  # noqa: E731
    is_lf = lambda ch: ch == "\n"  # noqa: E731
    while i < n:
        c = e[i]
        if chars.test(c, is_cr, ("eq", "\r")):
            out.append("\n")
            if i + 1 < n and chars.test(e[i + 1], is_lf, ("eq", "\n")):
                i += 2
            else:
                i += 1
            continue
        out.append(c)
        i += 1
    return SymStr(out).simp()


class SymFile:
    def __init__(self, content, encoding=None, newline=None):
        ex = core.EX
        if encoding is None:
            # the locale's preferred encoding: a symbolic configuration variable
            v = ex.fd("locale_enc", 2)
            ascii_locale = ex.branch_in(v, frozenset([1]))
            if ascii_locale:
                encoding = "ascii"
            else:
                encoding = "utf-8"
        enc = str(encoding).lower().replace("_", "-")
        if enc in ("ascii", "us-ascii"):
            for c in (content.e if isinstance(content, SymStr) else content):
                if not chars.test(c, lambda ch: ord(ch) < 128, "isascii"):
                    raise UnicodeDecodeError("ascii", b"\xc3", 0, 1, "ordinal not in range(128)")
        elif enc in ("utf-8-sig", "utf-8sig"):
            e0 = (content.e if isinstance(content, SymStr) else content)[:1]
            if len(e0) and chars.test(e0[0], lambda ch: ch == "\ufeff", ("eq", "\ufeff")):
                content = SymStr(content.e[1:]).simp() if isinstance(content, SymStr) else content[1:]    # the signature is dropped by the codec
        elif enc not in ("utf-8", "utf8"):
            raise core.EngineError(f"open(): encoding {encoding!r} is not modelled")
        text = _translate(content) if newline is None else content
        self._io = chars.SymStringIO(text) if isinstance(text, SymStr) else __import__("io").StringIO(text)

    def readline(self):
        return self._io.readline()

    def __iter__(self):
        while True:
            ln = self.readline()
            if not ln:
                return
            yield ln

    def __enter__(self):
        return self

    def __exit__(self, *a):
        return False

    def close(self):
        pass


def sym_open(path, mode="r", buffering=-1, encoding=None, errors=None, newline=None, **kw):
    key = str(path)
    if key not in FILES:
        raise FileNotFoundError(key)
    if "b" in mode:
        raise core.EngineError("binary open() is not modelled")
    return SymFile(FILES[key], encoding=encoding, newline=newline)
