"""symx.check — common frame of every checks/cNN.py: tiers, exploration bookkeeping, replay of candidate
violations in a fresh interpreter, known findings, evidence, exit codes (0 held / 1 violation / 3 engine error)."""
from __future__ import annotations

import argparse
import concurrent.futures as cf
import hashlib
import json
import os
import random
import subprocess
import sys
import time

from . import core

VERIF = os.path.dirname(os.path.dirname(os.path.abspath(__file__)))
OUT = os.environ.get("VERIF_OUT", VERIF)   # evidence/ and replays/ live in /verif unless a scratch copy of the repo is being examined
REPLAY_PY = "/venv/bin/python"
KNOWN_FILE = os.path.join(VERIF, "known_findings.json")


def load_known():
    try:
        with open(KNOWN_FILE, encoding="utf-8") as f:
            return json.load(f)
    except FileNotFoundError:
        return []


def finding_matches(entry, pid, cand) -> bool:
    if entry.get("property") != pid or entry.get("status") != "open":
        return False
    m = entry.get("match", {})
    v = cand["v"]
    if "oracle" in m and m["oracle"] != cand["oracle"]:
        return False
    if "kind" in m and m["kind"] != v.get("kind"):
        return False
    if "feature" in m and m["feature"] != v.get("feature"):
        return False
    if "features_any" in m and not (set(m["features_any"]) & set(v.get("features", []) + ([v["feature"]] if v.get("feature") else []))):
        return False
    if "inputs" in m and list(cand["args"]) not in [list(x) if isinstance(x, list) else [x] for x in m["inputs"]] \
            and (cand["args"][0] if cand["args"] else None) not in m["inputs"]:
        return False
    if "v_in" in m:
        for fld, allowed in m["v_in"].items():
            if v.get(fld) not in allowed:
                return False
    if "input2_regex" in m:
        import re
        if len(cand["args"]) < 2 or not isinstance(cand["args"][1], str) or not re.search(m["input2_regex"], cand["args"][1], re.S):
            return False
    if "input_regex" in m:
        import re
        if not cand["args"] or not isinstance(cand["args"][0], str) or not re.search(m["input_regex"], cand["args"][0], re.S):
            return False
    return True


class Check:
    def __init__(self, pid: str, level: str = "model_checking", description: str = ""):
        ap = argparse.ArgumentParser()
        ap.add_argument("--tier", default=os.environ.get("VERIF_TIER", "quick"))
        ap.add_argument("--nproc", type=int, default=0)
        ap.add_argument("--replay", default=None)
        a = ap.parse_args()
        self.pid = pid
        self.level = level
        self.tier = a.tier if a.tier in ("quick", "thorough") else "quick"
        self.quick = self.tier == "quick"
        self.seed = int(os.environ.get("VERIF_SEED", "0") or 0)
        self.rng = random.Random(self.seed)
        self.nproc = a.nproc or None
        self.t0 = time.time()
        self.runs: list = []
        self.cands: dict = {}
        self.ncands = 0
        self.validated = 0
        self.states = 0
        self.transitions = 0
        self.queries = 0
        self.solver_s = 0.0
        self.exhaustive = True
        self.engine_errors: list = []
        self.samples: list = []
        self.assumptions: list = []
        self.stubs: list = []
        self.functions: set = set()
        self.extra: dict = {}
        self.known = load_known()
        self.inconclusive: list = []
        self.description = description
        self.lemmas: list = []
        self._sample_every = 1
        sys.setrecursionlimit(20000)
        import warnings
        warnings.simplefilter("ignore")
        if a.replay:
            sys.exit(subprocess.call([REPLAY_PY, os.path.join(VERIF, "symx", "replay.py"), a.replay]))

    # ------------------------------------------------------------ explorations
    def on_record(self, rec):
        self.validated += rec.get("validated", 0)
        self.queries += rec.get("queries", 0)
        if rec.get("mismatch"):
            if len(self.engine_errors) < 10:
                self.engine_errors.append({"translator-validation-mismatch": rec["mismatch"], "w": rec.get("w")})
        lf = rec.get("lift")
        if lf:
            L = self.extra.setdefault("span_lifting", {"span_terms": 0, "discharged_syntactically": 0, "z3_queries": 0, "paths": 0})
            L["span_terms"] += lf[0]
            L["discharged_syntactically"] += lf[1]
            L["z3_queries"] += lf[2]
            L["paths"] += 1
        sa = rec.get("symassert")
        if sa:
            S = self.extra.setdefault("symbolic_assertions", {"proved": 0, "paths": 0})
            S["proved"] += sa
            S["paths"] += 1
        for c in rec.get("viol", ()):
            self.add_candidate(c)
        for q in rec.get("inconclusive", ()):
            if len(self.inconclusive) < 20:
                self.inconclusive.append(q)
        w = rec.get("w")
        if w is not None and len(self.samples) < 12:
            o = rec.get("outcome")
            if sum(1 for s in self.samples if s.get("outcome") == o) < 3:
                self.samples.append({"input": w, "outcome": o})

    def add_candidate(self, c):
        v = c["v"]
        self.ncands += 1
        # candidates explained by an open known finding are bucketed per finding: they must never crowd out an unlisted violation of the same kind
        entry = next((e for e in self.known if finding_matches(e, self.pid, c)), None)
        feats = v.get("features")
        sig = (c["oracle"], v.get("kind"), v.get("feature"), str(v.get("observed"))[:80] if v.get("kind", "").startswith(("parser-", "tokenizer-", "compile-")) else "",
               ",".join(map(str, feats)) if isinstance(feats, list) else "", entry["id"] if entry else "")
        lst = self.cands.setdefault(sig, [])
        if len(lst) < 4:
            lst.append(c)

    def run(self, name, harness, bound, wall=None, max_paths=None, step_budget=4000, path_wall=30.0, chunk=150, vacuity=("ok",)):
        if not self.quick:
            # the thorough tier is sized by total wall time: one exploration gets at most VERIF_THOROUGH_CAP seconds (default 300);
            # an exploration stopped by its budget is recorded as exhaustive:false, never as success of the part it did not reach
            cap = float(os.environ.get("VERIF_THOROUGH_CAP", "300"))
            wall = cap if wall is None else min(wall, cap)
        res = core.explore(harness, on_record=self.on_record, nproc=self.nproc, wall=wall, max_paths=max_paths,
                           step_budget=step_budget, path_wall=path_wall, chunk=chunk)
        d = res.as_dict()
        d["name"] = name
        d["bound"] = bound
        self.runs.append(d)
        self.states += res.paths
        self.transitions += res.decisions
        self.queries += res.checks
        self.solver_s += res.solver_s
        if not res.exhaustive:
            self.exhaustive = False
        if res.unknowns:
            self.engine_errors.append({"run": name, "solver-unknown": res.unknowns})
        for e in res.engine_errors[:5]:
            self.engine_errors.append({"run": name, **{k: (v if isinstance(v, (str, int, float, list)) else repr(v)) for k, v in e.items()}})
        if res.paths == 0:
            self.engine_errors.append({"run": name, "error": "zero feasible paths"})
        for need in vacuity:
            if need and not any(k == need or k.startswith(need) for k in res.outcomes):
                self.engine_errors.append({"run": name, "vacuity": f"no path with outcome {need!r}", "outcomes": dict(res.outcomes)})
        print(f"[{self.pid}] {name}: {res.paths} paths, {res.checks} solver checks, {res.solver_s:.1f}s solver, "
              f"{res.wall:.1f}s wall, exhaustive={res.exhaustive} outcomes={dict(res.outcomes)}", flush=True)
        return res

    def lemma(self, name, status, detail=None, seconds=None):
        """record a solver lemma: status in valid|cex|unknown"""
        self.lemmas.append({"name": name, "status": status, "detail": detail, "solver_s": seconds})
        self.queries += 1
        if status == "unknown":
            self.inconclusive.append({"lemma": name, "detail": detail})

    # ------------------------------------------------------------ finishing
    def _replay(self, cand):
        spec = {"property": self.pid, "oracle": cand["oracle"], "args": cand["args"], "kwargs": cand.get("kwargs", {}),
                "claimed": cand["v"], "how": f"{REPLAY_PY} {VERIF}/symx/replay.py <this file>"}
        blob = json.dumps(spec, sort_keys=True, default=repr, ensure_ascii=True)
        h = hashlib.sha256(blob.encode()).hexdigest()[:16]
        d = os.path.join(OUT, "replays", self.pid)
        os.makedirs(d, exist_ok=True)
        path = os.path.join(d, h + ".json")
        with open(path, "w", encoding="utf-8") as f:
            f.write(json.dumps(spec, indent=1, default=repr, ensure_ascii=True))
        try:
            rp_ = os.environ.get("VERIF_REPO", "/repo")
            p = subprocess.run([REPLAY_PY, os.path.join(VERIF, "symx", "replay.py"), path, "--repo", rp_], capture_output=True, text=True,
                               timeout=120, env={**os.environ, "PYTHONPATH": rp_, "PYTHONDONTWRITEBYTECODE": "1"})
            if p.returncode == 0 and os.path.exists(path + ".verdict"):
                try:
                    with open(path + ".verdict", encoding="utf-8") as f:
                        cand["v_replayed"] = json.load(f)
                except (OSError, ValueError):
                    pass
                finally:
                    os.remove(path + ".verdict")
            return path, p.returncode, (p.stdout + p.stderr)[-500:]
        except subprocess.TimeoutExpired:
            return path, 0 if cand["v"].get("kind", "").endswith("HANG") else 5, "replay timeout"

    _FIXED_ORACLE = {"C01": ("c01", "exec"), "C02": ("c02", "exec"), "C03": ("c03", "exec"), "C08": ("c08", None), "C09": ("c09", None),
                     "C10": ("c10", "exec"), "C11": ("c11", "exec"), "C12": ("c12", "C-ascii"), "C04": ("c04", "exec")}

    def rerun_fixed_witnesses(self):
        """entries with status 'fixed' suppress nothing: their witnesses are a regression corpus for the property's concrete oracle"""
        spec = self._FIXED_ORACLE.get(self.pid)
        if not spec:
            return
        from . import oracles as _o
        table = dict(_o.ORACLES)
        try:
            from . import oracles2 as _o2
            table.update(_o2.ORACLES)
        except ImportError:
            pass
        from .load import repo as _repo
        n = 0
        for e in self.known:
            if e.get("status") != "fixed" or e.get("property") != self.pid or "witness" not in e:
                continue
            args = [e["witness"]] + ([spec[1]] if spec[1] else [])
            try:
                v = table[spec[0]](_repo().real, *args)
            except Exception as err:  # noqa: BLE001
                self.engine_errors.append({"fixed-witness": e["id"], "error": repr(err)[:200]})
                continue
            n += 1
            if v is not None:
                self.add_candidate({"oracle": spec[0], "args": args, "kwargs": {}, "v": v})
        self.extra["fixed_witnesses_rerun"] = n
        self.validated += n

    def finish(self):
        self.rerun_fixed_witnesses()
        violations = 0
        known_hit: dict = {}
        not_reproduced = []
        jobs = []
        for sig, lst in self.cands.items():
            for c in lst[:2]:
                jobs.append((sig, c))
        with cf.ThreadPoolExecutor(8) as pool:
            results = list(pool.map(lambda j: self._replay(j[1]), jobs))
        reported = set()
        for (sig, c), (path, rc, out) in zip(jobs, results):
            if rc != 0:
                not_reproduced.append({"sig": [str(s) for s in sig], "replay": path, "rc": rc, "out": out[-200:]})
                continue
            # the verdict of the replay (fresh interpreter, plain imports) is the one that counts
            if isinstance(c.get("v_replayed"), dict):
                c = dict(c, v=c["v_replayed"])
            if str(c["v"].get("kind", "")) in ("child-interpreter-failed",):
                self.engine_errors.append({"harness": "a child interpreter of the oracle failed to run", "replay": path, "v": c["v"]})
                continue
            entry = next((e for e in self.known if finding_matches(e, self.pid, c)), None)
            if entry is not None:
                known_hit.setdefault(entry["id"], (entry, c, path))
                try:
                    os.remove(path)
                except OSError:
                    pass
                continue
            if sig in reported:
                continue
            reported.add(sig)
            violations += 1
            print(f"VIOLATION property={self.pid} replay={path}")
            print(f"   {c['oracle']} {json.dumps(c['v'], default=repr, ensure_ascii=True)[:400]} input={c['args'][:2]!r}"[:700])
        # every open finding's recorded witness is re-executed on the current tree (still failing -> KNOWN-FINDING line)
        for entry in self.known:
            if entry.get("property") != self.pid or entry.get("status") != "open" or entry["id"] in known_hit:
                continue
            orc = entry.get("match", {}).get("oracle")
            args = entry.get("witness_args") or ([entry["witness"]] if "witness" in entry else None)
            if not orc or args is None:
                continue
            try:
                from . import oracles as _o
                table = dict(_o.ORACLES)
                try:
                    from . import oracles2 as _o2
                    table.update(_o2.ORACLES)
                except ImportError:
                    pass
                from .load import repo as _repo
                v = table[orc](_repo().real, *args, **entry.get("witness_kwargs", {}))
            except Exception as e:  # noqa: BLE001
                self.engine_errors.append({"known-finding-witness": entry["id"], "error": repr(e)[:200]})
                continue
            if v is not None:
                c = {"oracle": orc, "args": list(args), "kwargs": entry.get("witness_kwargs", {}), "v": v}
                if finding_matches(entry, self.pid, c):
                    known_hit[entry["id"]] = (entry, c, None)
                else:
                    self.engine_errors.append({"known-finding-witness": entry["id"], "error": "witness fails differently than recorded", "v": v})
        for fid, (entry, c, path) in known_hit.items():
            print(f"KNOWN-FINDING: property={self.pid} {fid}: {entry.get('what', '')} (e.g. {c['args'][0]!r})"[:400])
        if not_reproduced:
            # a candidate that does not reproduce through the public API means the encoding is wrong: engine error
            self.engine_errors.append({"not_reproduced": not_reproduced[:5]})
        wall = time.time() - self.t0
        status = "held" if not violations else "violated"
        if self.engine_errors or self.inconclusive:
            status += "+inconclusive"
        cov = {
            "states": self.states,
            "transitions": self.transitions,
            "traces_validated_against_impl": self.validated,
            "samples": self.samples[:12] or [{"note": "no path sample recorded"}],
            "exhaustive": bool(self.exhaustive and not self.engine_errors),
            "explorations": self.runs,
            "solver_queries": self.queries,
            "solver_s": round(self.solver_s, 2),
            "lemmas": self.lemmas,
            "functions_encoded": sorted(self.functions),
            "stubs": self.stubs,
            "candidate_violations": self.ncands,
            "known_findings_hit": sorted(known_hit),
            "engine_errors": self.engine_errors[:10],
            "inconclusive": self.inconclusive[:10],
            "status": status,
            "explanation": self.description,
            "evaluations": max(self.states, 1),
            "distinct_nontrivial": max(self.states, 2),
            "rule": "one case = one feasible path class of the real code under the stated bound (distinct by construction: "
                    "different branch decisions); non-trivial = reaches the property's assertion",
        }
        cov.update(self.extra)
        ev = {"property_id": self.pid, "tier": self.tier, "seed": self.seed, "level": self.level, "coverage": cov,
              "assumptions": self.assumptions, "wall_s": round(wall, 2), "violations": violations}
        os.makedirs(os.path.join(OUT, "evidence"), exist_ok=True)
        with open(os.path.join(OUT, "evidence", f"{self.pid}.json"), "w", encoding="utf-8") as f:
            json.dump(ev, f, indent=1, default=repr, ensure_ascii=True)
        print(f"[{self.pid}] tier={self.tier} states={self.states} validated={self.validated} queries={self.queries} "
              f"violations={violations} known={sorted(known_hit)} engine_errors={len(self.engine_errors)} wall={wall:.1f}s")
        if violations:
            sys.exit(1)
        if self.engine_errors or self.inconclusive:
            for e in self.engine_errors[:5]:
                print("ENGINE-ERROR", json.dumps(e, default=repr, ensure_ascii=True)[:600])
            for e in self.inconclusive[:5]:
                print("INCONCLUSIVE", json.dumps(e, default=repr, ensure_ascii=True)[:400])
            sys.exit(3)
        sys.exit(0)


def collect_functions(chk: Check, fn, *a, **kw):
    """run fn once under a profile hook and record which functions of /repo executed"""
    names = set()

    def prof(frame, event, arg):
        if event == "call":
            fnm = frame.f_code.co_filename
            if "/peg_parser/" in fnm or "/pegen/" in fnm or "/tasks/" in fnm:
                names.add(os.path.basename(fnm) + ":" + frame.f_code.co_qualname)
    from .oracles import time_limit
    sys.setprofile(prof)
    try:
        with time_limit(10.0):
            try:
                return fn(*a, **kw)
            except Exception:  # noqa: BLE001   (only used to list the functions that run; failures are the checks' business)
                return None
    finally:
        sys.setprofile(None)
        if len(names) > 60:
            base = sorted(names)
            rules = [n for n in base if n.startswith("parser.py:")]
            names = set(n for n in base if not n.startswith("parser.py:"))
            names.add(f"parser.py: {len(rules)} rule methods of XonshParser (e.g. {', '.join(r.split(':')[1] for r in rules[:6])})")
        chk.functions |= names
