"""symx.gramseeds — programs derived from a grammar (DESIGN §1.7 items 2 and 3).

A grammar file in pegen notation (CPython's own python.gram copied to /verif/ref, or the working tree's tasks/xonsh.gram)
is read with the working tree's pegen; for every alternative of every rule several derivations are produced (a shortest
one plus seeded random ones) embedded in a shortest context from the start rule.  The grammar only PROPOSES token
sequences; CPython (`ast.parse`) or the parser under test JUDGES them, so a wrong proposal can never raise an alarm.
"""
from __future__ import annotations

import keyword
import os
import random
import sys

NAMES = ["a", "b", "c", "x", "y", "f", "g", "cls"]
TERMINALS = {
    "NAME": lambda r: r.choice(NAMES), "NUMBER": lambda r: r.choice(["1", "2", "0x1F", "3.5", "4j"]),
    "STRING": lambda r: r.choice(["'s'", '"t"', "b'b'", "r'r'", "'''u'''"]), "NEWLINE": lambda r: "\n", "INDENT": lambda r: "\x01", "DEDENT": lambda r: "\x02",
    "ENDMARKER": lambda r: "", "ASYNC": lambda r: "async", "AWAIT": lambda r: "await", "TYPE_COMMENT": lambda r: None, "SOFT_KEYWORD": lambda r: "match",
    "FSTRING_START": lambda r: None, "FSTRING_MIDDLE": lambda r: None, "FSTRING_END": lambda r: None, "SEARCH_PATH": lambda r: "`a.*`", "MACRO_PARAM": lambda r: None,
    "WS": lambda r: None, "KEYWORD": lambda r: "pass", "ANY_TOKEN": lambda r: "x", "OP": lambda r: "+", "ERRORTOKEN": lambda r: None, "COMMENT": lambda r: None, "NL": lambda r: None,
}
INF = 10**6


def load_grammar(path, repo=None):
    repo = repo or os.environ.get("VERIF_REPO", "/repo")
    if repo not in sys.path:
        sys.path.insert(0, repo)
    from pegen.build import build_parser
    g, *_ = build_parser(path)
    return g


class Deriver:
    def __init__(self, grammar, start, rng):
        import pegen.grammar as G
        self.G = G
        self.rules = grammar.rules
        self.start = start
        self.rng = rng
        self.cost = {name: INF for name in self.rules}
        self._fixed = False
        self._cost_cache = {}
        self._reach_cache = {}
        self._rule_reach = {}
        self._dist = {}
        self._direct = {}
        self._nd = {}
        self._dr = {}
        self._fix_costs()
        self._fixed = True

    # ---- shortest derivation lengths (fixed point)
    def _item_cost(self, it):
        if self._fixed:
            c = self._cost_cache.get(id(it))
            if c is None:
                c = self._cost_cache[id(it)] = self._item_cost0(it)
            return c
        return self._item_cost0(it)

    def _item_cost0(self, it):
        G = self.G
        if isinstance(it, G.NamedItem):
            return self._item_cost(it.item)
        if isinstance(it, G.StringLeaf):
            return 1
        if isinstance(it, G.NameLeaf):
            if it.value in self.rules:
                return self.cost[it.value]
            f = TERMINALS.get(it.value)
            if f is None:
                return INF
            return INF if f(self.rng) is None and it.value not in ("ENDMARKER",) else (0 if it.value == "ENDMARKER" else 1)
        if isinstance(it, (G.Opt, G.Repeat0)):
            return 0
        if isinstance(it, G.Gather):
            return self._item_cost(it.node)
        if isinstance(it, G.Repeat1):
            return self._item_cost(it.node)
        if isinstance(it, G.Group):
            return self._rhs_cost(it.rhs)
        if isinstance(it, (G.PositiveLookahead, G.NegativeLookahead, G.Cut)):
            return 0
        if isinstance(it, G.Forced):
            return self._item_cost(it.node)
        if isinstance(it, G.Rhs):
            return self._rhs_cost(it)
        return INF

    def _alt_cost(self, alt):
        if self._fixed:
            c = self._cost_cache.get(("alt", id(alt)))
            if c is not None:
                return c
        c = INF if self._invalid(alt) else min(INF, sum(self._item_cost(i) for i in alt.items))
        if self._fixed:
            self._cost_cache[("alt", id(alt))] = c
        return c

    def _rhs_cost(self, rhs):
        return min([self._alt_cost(a) for a in rhs.alts] or [INF])

    def _invalid(self, alt):
        G = self.G
        for i in alt.items:
            it = i.item if isinstance(i, G.NamedItem) else i
            if isinstance(it, G.NameLeaf) and it.value.startswith("invalid_"):
                return True
        return False

    def _fix_costs(self):
        changed = True
        while changed:
            changed = False
            for name, rule in self.rules.items():
                c = self._rhs_cost(rule.rhs)
                if c < self.cost[name]:
                    self.cost[name] = c
                    changed = True

    # ---- derivation
    def derive_item(self, it, budget, force=None):
        G = self.G
        r = self.rng
        if isinstance(it, G.NamedItem):
            return self.derive_item(it.item, budget, force)
        if isinstance(it, G.StringLeaf):
            return [it.value[1:-1]]
        if isinstance(it, G.NameLeaf):
            if it.value in self.rules:
                return self.derive_rule(it.value, budget, force)
            v = TERMINALS[it.value](r)
            return [v] if v else []
        must = bool(force) and not force[2] and self.node_dist(it, force[0]) < INF
        if isinstance(it, G.Opt):
            if must or (budget > 2 and r.random() < 0.5 and self._item_cost(it.node) < budget):
                return self.derive_item(it.node, budget - 1, force)
            return []
        if isinstance(it, G.Repeat0):
            n = r.choice([0, 0, 1, 2]) if budget > 2 and self._item_cost(it.node) < budget else 0
            n = max(n, 1) if must else n
            out = []
            for _ in range(n):
                out += self.derive_item(it.node, budget // 2, force)
            return out
        if isinstance(it, G.Repeat1):
            n = r.choice([1, 1, 2]) if budget > 3 else 1
            out = []
            for _ in range(n):
                out += self.derive_item(it.node, max(budget // 2, 1), force)
            return out
        if isinstance(it, G.Gather):
            n = r.choice([1, 1, 2, 3]) if budget > 3 else 1
            out = []
            for k in range(n):
                if k:
                    out += self.derive_item(it.separator, 1, None)
                out += self.derive_item(it.node, max(budget // 2, 1), force)
            return out
        if isinstance(it, G.Group):
            return self.derive_rhs(it.rhs, budget, force)
        if isinstance(it, G.Rhs):
            return self.derive_rhs(it, budget, force)
        if isinstance(it, (G.PositiveLookahead, G.NegativeLookahead, G.Cut)):
            return []
        if isinstance(it, G.Forced):
            return self.derive_item(it.node, budget, force)
        return []

    def derive_rhs(self, rhs, budget, force=None):
        alts = [a for a in rhs.alts if self._alt_cost(a) < INF]
        if not alts:
            raise ValueError("underivable")
        if force and not force[2]:
            best = min(alts, key=lambda a: (self.node_dist(a, force[0]), self._alt_cost(a)))
            if self.node_dist(best, force[0]) < INF:
                return self.derive_alt(best, budget, force)
        fit = [a for a in alts if self._alt_cost(a) <= budget]
        if fit and budget > 1:
            alt = self.rng.choice(fit)
        else:
            alt = min(alts, key=self._alt_cost)
        return self.derive_alt(alt, budget, None if (force and force[2]) else force)

    def derive_alt(self, alt, budget, force=None):
        out = []
        n = max(len(alt.items), 1)
        carrier = None
        if force and not force[2]:
            dmin = self.node_dist(alt, force[0])
            if dmin < INF:
                carrier = next((i for i in alt.items if self.node_dist(i, force[0]) == dmin), None)
        for i in alt.items:
            f = force if (i is carrier) else None
            out += self.derive_item(i, max((budget - self._alt_cost(alt)) // n + self._item_cost(i), self._item_cost(i)), f)
        return out

    def derive_rule(self, name, budget, force=None):
        rule = self.rules[name]
        if force and force[0] == name and not force[2]:
            force[2] = True     # use the forced alternative once
            return self.derive_alt(rule.rhs.alts[force[1]], budget, None)
        return self.derive_rhs(rule.rhs, budget, force)

    # ---- distance (in rule references) from a grammar node to a target rule
    def dist_table(self, target):
        t = self._dist.get(target)
        if t is not None:
            return t
        direct = self._direct
        if not direct:
            for name, rule in self.rules.items():
                direct[name] = self._direct_refs(rule.rhs)
        t = {target: 0}
        frontier = [target]
        while frontier:
            nxt = []
            for r in frontier:
                for name, refs in direct.items():
                    if r in refs and name not in t:
                        t[name] = t[r] + 1
                        nxt.append(name)
            frontier = nxt
        self._dist[target] = t
        return t

    def node_dist(self, node, target):
        key = (id(node), target)
        c = self._nd.get(key)
        if c is None:
            t = self.dist_table(target)
            c = min([t.get(r, INF) for r in self._direct_refs(node)] or [INF])
            self._nd[key] = c
        return c

    def _direct_refs(self, node):
        """rule names referenced inside node without going through another rule (invalid_ alternatives excluded)"""
        G = self.G
        k = id(node)
        c = self._dr.get(k)
        if c is not None:
            return c
        out = set()
        stack = [node]
        while stack:
            n = stack.pop()
            if isinstance(n, G.NamedItem):
                stack.append(n.item)
            elif isinstance(n, G.NameLeaf):
                if n.value in self.rules:
                    out.add(n.value)
            elif isinstance(n, G.Rhs):
                stack.extend(a for a in n.alts if not self._invalid(a))
            elif isinstance(n, G.Alt):
                stack.extend(n.items)
            elif isinstance(n, (G.Opt, G.Repeat0, G.Repeat1, G.Forced)):
                stack.append(n.node)
            elif isinstance(n, G.Gather):
                stack.append(n.node)
            elif isinstance(n, G.Group):
                stack.append(n.rhs)
        self._dr[k] = out
        return out

    def _reaches(self, node, target, seen=None):
        key = (id(node), target)
        c = self._reach_cache.get(key)
        if c is not None:
            return c
        res = target in self._names_in(node)
        self._reach_cache[key] = res
        return res

    def _names_in(self, node):
        """set of rule names reachable from a grammar node"""
        G = self.G
        k = id(node)
        if k in self._rule_reach:
            return self._rule_reach[k]
        out = set()
        self._rule_reach[k] = out
        stack = [node]
        seen_rules = set()
        while stack:
            n = stack.pop()
            if isinstance(n, G.NamedItem):
                stack.append(n.item)
            elif isinstance(n, G.NameLeaf):
                if n.value in self.rules and n.value not in seen_rules:
                    seen_rules.add(n.value)
                    out.add(n.value)
                    stack.append(self.rules[n.value].rhs)
            elif isinstance(n, G.Rhs):
                stack.extend(n.alts)
            elif isinstance(n, G.Alt):
                stack.extend(n.items)
            elif isinstance(n, (G.Opt, G.Repeat0, G.Repeat1, G.Forced, G.PositiveLookahead, G.NegativeLookahead)):
                stack.append(n.node)
            elif isinstance(n, G.Gather):
                stack.append(n.node)
                stack.append(n.separator)
            elif isinstance(n, G.Group):
                stack.append(n.rhs)
        return out


def render(tokens):
    """tokens (with \\x01 INDENT / \\x02 DEDENT / \\n NEWLINE markers) -> source text"""
    out = []
    indent = 0
    line = []
    for t in tokens:
        if t == "\n":
            out.append(" " * (4 * indent) + " ".join(line) + "\n")
            line = []
        elif t == "\x01":
            indent += 1
        elif t == "\x02":
            indent = max(0, indent - 1)
        elif t:
            line.append(t)
    if line:
        out.append(" " * (4 * indent) + " ".join(line) + "\n")
    return "".join(out)


def programs(path, start="file", per_alt=2, seed=0, repo=None, budget=14, limit=None):
    repo = repo or os.environ.get("VERIF_REPO", "/repo")
    """[(rule, alt index, text)]: for every derivable alternative of every rule a shortest-context program that uses it"""
    rng = random.Random(seed)
    g = load_grammar(path, repo)
    if start not in g.rules:
        start = next(iter(g.rules))
    d = Deriver(g, start, rng)
    out = []
    seen = set()
    for name, rule in g.rules.items():
        if name.startswith("invalid_") or name.startswith("_"):
            continue
        if name != start and not d._reaches(g.rules[start].rhs, name):
            continue
        for ai, alt in enumerate(rule.rhs.alts):
            if d._alt_cost(alt) >= INF:
                continue
            for k in range(per_alt):
                force = [name, ai, False]
                try:
                    toks = d.derive_rule(start, budget if k else 4, force)
                except (ValueError, RecursionError):
                    continue
                if not force[2]:
                    continue
                text = render(toks)
                if text and text not in seen and len(text) < 400:
                    seen.add(text)
                    out.append((name, ai, text))
            if limit and len(out) >= limit:
                return out
    return out
