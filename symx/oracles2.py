"""symx.oracles2 — concrete predicates for C05 C06 C07 C10 C12 C13 C14(seq) (stdlib only; see oracles.py)."""
from __future__ import annotations

import ast
import io
import re
import sys
import tokenize as pytok

try:
    from . import oracles as O
except ImportError:  # replay: loaded by file path
    import symx_oracles as O  # type: ignore


# ------------------------------------------------------------------ C10
def fstring_features(src):
    """features of the f-strings of src, computed from CPython's own token stream"""
    k, toks = O.cpy_tokens(src)
    feats = set()
    if k != "ok":
        return feats
    depth = []      # stack of dicts per open f-string: {"brace": n, "spec": [levels]}
    prev = None
    sig = [t for t in toks if t.type not in (pytok.NL, pytok.COMMENT)]
    for i, t in enumerate(sig):
        if t.type == pytok.FSTRING_START:
            if depth:
                feats.add("nested-fstring")
            depth.append({"brace": 0, "spec": []})
            if prev is not None and prev.type in (pytok.STRING, pytok.FSTRING_END):
                feats.add("concatenation")
            if "r" in t.string.lower():
                feats.add("raw")
            if len(t.string) > 3 and t.string[-3:] in ("'''", '"""'):
                feats.add("triple-quoted")
        elif t.type == pytok.FSTRING_END:
            if depth:
                depth.pop()
            if i + 1 < len(sig) and sig[i + 1].type == pytok.STRING:
                feats.add("concatenation")
        elif t.type == pytok.FSTRING_MIDDLE and depth:
            d = depth[-1]
            span = None
            if t.start[0] == t.end[0]:
                span = t.end[1] - t.start[1]
            if "{" in t.string or "}" in t.string or (span is not None and span != len(t.string)):
                feats.add("doubled-brace")
            # CPython does not include the doubled brace in the token's extent: look at the source after the token
            lines = src.split("\n")
            if t.end[0] - 1 < len(lines):
                rest = lines[t.end[0] - 1][t.end[1]:t.end[1] + 2]
                if rest in ("{{", "}}"):
                    feats.add("doubled-brace")
            if "\\" in t.string:
                feats.add("escape-in-literal")
            if not t.string.isascii():
                feats.add("nonascii")
            if d["spec"] and d["spec"][-1] == d["brace"]:
                feats.add("format-spec")
                if t.string == "":
                    feats.add("empty-spec")
                if "\n" in t.string:
                    feats.add("newline-in-spec")
        elif t.type == pytok.OP and depth:
            d = depth[-1]
            if t.string == "{":
                if d["spec"] and d["spec"][-1] == d["brace"]:
                    feats.add("nested-spec-field")
                d["brace"] += 1
            elif t.string == "}":
                if d["spec"] and d["spec"][-1] == d["brace"]:
                    d["spec"].pop()
                d["brace"] = max(0, d["brace"] - 1)
            elif t.string == ":" and d["brace"] > 0 and not (d["spec"] and d["spec"][-1] == d["brace"]):
                # a colon at field level (not inside brackets/lambda) starts the spec; CPython emits FSTRING_MIDDLE next
                nxt = sig[i + 1] if i + 1 < len(sig) else None
                if nxt is not None and (nxt.type == pytok.FSTRING_MIDDLE or (nxt.type == pytok.OP and nxt.string in "{}")):
                    d["spec"].append(d["brace"])
                    if nxt.type == pytok.OP and nxt.string == "}":
                        feats.add("empty-spec")
                    lines = src.split("\n")
                    if t.end[0] - 1 < len(lines) and lines[t.end[0] - 1][t.end[1]:t.end[1] + 1] == "=":
                        feats.add("spec-starts-with-equals")
            elif t.string == "=" and d["brace"] > 0:
                nxt = sig[i + 1] if i + 1 < len(sig) else None
                if nxt is not None and nxt.type == pytok.OP and nxt.string in ("}", "!", ":"):
                    feats.add("debug-equals")
            elif t.string == "!" and d["brace"] > 0:
                feats.add("conversion")
        if depth and t.type not in (pytok.FSTRING_START,) and not t.string.isascii():
            feats.add("nonascii")
        if depth and t.start[0] != t.end[0] or (depth and prev is not None and prev.end[0] != t.start[0] and depth[-1]["brace"] > 0):
            feats.add("multi-line")
        prev = t
    if not src.isascii():
        feats.add("nonascii")
    if re.search(r"\\\r?\n", src):
        feats.add("backslash-newline")
    if re.search(r"\r(?!\n)", src):
        feats.add("lone-cr")
    return feats


def c10(X, src, mode="exec"):
    """f-string bearing sources CPython accepts: tokens and tree equal CPython's"""
    if "\x00" in src or "\ufeff" in src:
        return None
    ck, ref = O.cpy_parse(src, mode)
    if ck != "ok":
        return None
    k, ctoks = O.cpy_tokens(src)
    if k != "ok" or not any(t.type == pytok.FSTRING_START for t in ctoks):
        return None
    feats = sorted(fstring_features(src))
    # tokens
    kind, toks = O.run_tokens(X, src)
    if kind != "ok":
        e = toks[0] if isinstance(toks, tuple) else None
        return {"kind": "fstring-tokenizer-rejects", "observed": [kind, O.exc_sig(e) if e else None], "expected": "CPython's tokens", "features": feats}
    T = X.tokenize.Token
    ours = [(t.type.name, t.string, tuple(t.start), tuple(t.end)) for t in toks if t.type not in (T.WS, T.COMMENT, T.NL)]
    theirs = [(pytok.tok_name[t.type], t.string, tuple(t.start), tuple(t.end)) for t in ctoks if t.type not in (pytok.COMMENT, pytok.NL)]

    def norm(x):
        if x[0] in ("NEWLINE", "ENDMARKER", "DEDENT", "INDENT"):
            return (x[0],)
        return x
    no, nt = [norm(x) for x in ours], [norm(x) for x in theirs]
    merged = []
    for x in nt:
        if merged and x[0] == "OP" and x[1] == "(" and merged[-1][0] == "OP" and merged[-1][1] == "@" and merged[-1][3] == x[2]:
            merged[-1] = ("OP", "@(", merged[-1][2], x[3])
        else:
            merged.append(x)
    nt = merged
    if no != nt:
        d = next((i for i, (a, b) in enumerate(zip(no, nt)) if a != b), min(len(no), len(nt)))
        return {"kind": "fstring-tokens-differ", "observed": f"#{d} ours {no[d] if d < len(no) else None}", "expected": f"cpython {nt[d] if d < len(nt) else None}",
                "features": feats}
    kind, tree = O.run_parse(X, src, mode)
    if kind != "ok":
        return {"kind": "fstring-parser-rejects", "observed": [kind, O.exc_sig(tree) if isinstance(tree, BaseException) else None],
                "expected": "tree equal to ast.parse", "features": feats}
    a, b = O.dump(tree), O.dump(ref)
    if a != b:
        if not src.isascii() and a == O.dump(O._byte_to_char_cols(ref, src)):
            return {"kind": "fstring-tree-differs", "diff": O.first_diff(a, b), "features": ["nonascii-char-columns"]}
        return {"kind": "fstring-tree-differs", "diff": O.first_diff(a, b), "features": [f for f in feats if f != "nonascii"]}
    return None


ORACLES = {"c10": c10}
