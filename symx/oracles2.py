"""symx.oracles2 — concrete predicates for C05 C06 C07 C10 C12 C13 C14(seq) (stdlib only; see oracles.py)."""
from __future__ import annotations

import ast
import io
import json
import re
import sys
import tokenize as pytok

try:
    from . import oracles as O
except ImportError:  # replay: loaded by file path
    import symx_oracles as O  # type: ignore


# ------------------------------------------------------------------ C10
def fstring_features(src):
    """features of the f-strings of src, computed from CPython's own token stream"""
    k, toks = O.cpy_tokens(src)
    feats = set()
    if k != "ok":
        return feats
    depth = []      # stack of dicts per open f-string: {"brace": n, "spec": [levels]}
    prev = None
    sig = [t for t in toks if t.type not in (pytok.NL, pytok.COMMENT)]
    for i, t in enumerate(sig):
        if depth and depth[-1]["spec"] and depth[-1]["spec"][-1] == depth[-1]["brace"] and prev is not None and t.start[0] > prev.end[0]:
            feats.add("newline-in-spec")     # a line break between two tokens of a format spec (whatever the field itself contains)
        if t.type == pytok.FSTRING_START:
            if depth:
                feats.add("nested-fstring")
            depth.append({"brace": 0, "spec": []})
            if prev is not None and prev.type in (pytok.STRING, pytok.FSTRING_END):
                feats.add("concatenation")
            if "r" in t.string.lower():
                feats.add("raw")
            if len(t.string) > 3 and t.string[-3:] in ("'''", '"""'):
                feats.add("triple-quoted")
        elif t.type == pytok.FSTRING_END:
            if depth:
                depth.pop()
            if i + 1 < len(sig) and sig[i + 1].type == pytok.STRING:
                feats.add("concatenation")
        elif t.type == pytok.FSTRING_MIDDLE and depth:
            d = depth[-1]
            span = None
            if t.start[0] == t.end[0]:
                span = t.end[1] - t.start[1]
            if "{" in t.string or "}" in t.string or (span is not None and span != len(t.string)):
                feats.add("doubled-brace")
            # CPython does not include the doubled brace in the token's extent: look at the source after the token
            lines = src.split("\n")
            if t.end[0] - 1 < len(lines):
                rest = lines[t.end[0] - 1][t.end[1]:t.end[1] + 2]
                if rest in ("{{", "}}"):
                    feats.add("doubled-brace")
            if "\\" in t.string:
                feats.add("escape-in-literal")
            if not t.string.isascii():
                feats.add("nonascii")
            if d["spec"] and d["spec"][-1] == d["brace"]:
                feats.add("format-spec")
                if t.string == "":
                    feats.add("empty-spec")
                if "\n" in t.string:
                    feats.add("newline-in-spec")
        elif t.type == pytok.OP and depth:
            d = depth[-1]
            if t.string == "{":
                if d["spec"] and d["spec"][-1] == d["brace"]:
                    feats.add("nested-spec-field")
                d["brace"] += 1
            elif t.string == "}":
                if d["spec"] and d["spec"][-1] == d["brace"]:
                    d["spec"].pop()
                d["brace"] = max(0, d["brace"] - 1)
            elif t.string == ":" and d["brace"] > 0 and not (d["spec"] and d["spec"][-1] == d["brace"]):
                # a colon at field level (not inside brackets/lambda) starts the spec; CPython emits FSTRING_MIDDLE next
                nxt = sig[i + 1] if i + 1 < len(sig) else None
                if nxt is not None and (nxt.type == pytok.FSTRING_MIDDLE or (nxt.type == pytok.OP and nxt.string in "{}")):
                    d["spec"].append(d["brace"])
                    if nxt.type == pytok.OP and nxt.string == "}":
                        feats.add("empty-spec")
                    lines = src.split("\n")
                    if t.end[0] - 1 < len(lines) and lines[t.end[0] - 1][t.end[1]:t.end[1] + 1] == "=":
                        feats.add("spec-starts-with-equals")
            elif t.string == "=" and d["brace"] > 0:
                nxt = sig[i + 1] if i + 1 < len(sig) else None
                if nxt is not None and nxt.type == pytok.OP and nxt.string in ("}", "!", ":"):
                    feats.add("debug-equals")
            elif t.string == "!" and d["brace"] > 0:
                feats.add("conversion")
        if depth and t.type not in (pytok.FSTRING_START,) and not t.string.isascii():
            feats.add("nonascii")
        if depth and t.start[0] != t.end[0] or (depth and prev is not None and prev.end[0] != t.start[0] and depth[-1]["brace"] > 0):
            feats.add("multi-line")
        prev = t
    if not src.isascii():
        feats.add("nonascii")
    if re.search(r"\\\r?\n", src):
        feats.add("backslash-newline")
    if re.search(r"\r(?!\n)", src):
        feats.add("lone-cr")
    if "format-spec" in feats and re.search(r"\{[^{}\n]*:[^{}\n]*\n", src):
        feats.add("newline-in-spec")
    return feats


def c10(X, src, mode="exec"):
    """f-string bearing sources CPython accepts: tokens and tree equal CPython's"""
    if "\x00" in src or "\ufeff" in src:
        return None
    ck, ref = O.cpy_parse(src, mode)
    if ck != "ok":
        return None
    k, ctoks = O.cpy_tokens(src)
    if k != "ok" or not any(t.type == pytok.FSTRING_START for t in ctoks):
        return None
    for a, b in zip(ctoks, ctoks[1:]):
        if a.type == pytok.OP and a.string == "@" and b.type == pytok.OP and b.string == "(" and a.end == b.start:
            return None     # 'x@(y)': the xonsh lexicon reads '@(' as one token - outside "Python source", as in C01's domain
    feats = sorted(fstring_features(src))
    # tokens
    kind, toks = O.run_tokens(X, src)
    if kind != "ok":
        e = toks[0] if isinstance(toks, tuple) else None
        return {"kind": "fstring-tokenizer-rejects", "observed": [kind, O.exc_sig(e) if e else None], "expected": "CPython's tokens", "features": feats}
    T = X.tokenize.Token
    ours = [(t.type.name, t.string, tuple(t.start), tuple(t.end)) for t in toks if t.type not in (T.WS, T.COMMENT, T.NL)]
    theirs = [(pytok.tok_name[t.type], t.string, tuple(t.start), tuple(t.end)) for t in ctoks if t.type not in (pytok.COMMENT, pytok.NL)]

    def norm(x):
        if x[0] in ("NEWLINE", "ENDMARKER", "DEDENT", "INDENT"):
            return (x[0],)
        if "\n" in x[1] and not x[1].isascii():
            return x[:3]     # CPython 3.12's tokenize derives the END column of a multi-line token from bytes: only type, text and start are compared
        return x
    no, nt = [norm(x) for x in ours], [norm(x) for x in theirs]
    merged = []
    for x in nt:
        if merged and x[0] == "OP" and x[1] == "(" and merged[-1][0] == "OP" and merged[-1][1] == "@" and merged[-1][3] == x[2]:
            merged[-1] = ("OP", "@(", merged[-1][2], x[3])
        else:
            merged.append(x)
    nt = merged
    if no != nt:
        d = next((i for i, (a, b) in enumerate(zip(no, nt)) if a != b), min(len(no), len(nt)))
        return {"kind": "fstring-tokens-differ", "observed": f"#{d} ours {no[d] if d < len(no) else None}", "expected": f"cpython {nt[d] if d < len(nt) else None}",
                "features": feats}
    kind, tree = O.run_parse(X, src, mode)
    if kind != "ok":
        return {"kind": "fstring-parser-rejects", "observed": [kind, O.exc_sig(tree) if isinstance(tree, BaseException) else None],
                "expected": "tree equal to ast.parse", "features": feats}
    a, b = O.dump(tree), O.dump(ref)
    if a != b:
        if not src.isascii() and a == O.dump(O._byte_to_char_cols(ref, src)):
            return {"kind": "fstring-tree-differs", "diff": O.first_diff(a, b), "features": ["nonascii-char-columns"]}
        if not src.isascii() and O.dump(O.nfkc_identifiers(tree)) in (b, O.dump(O._byte_to_char_cols(ref, src))):
            return {"kind": "fstring-tree-differs", "diff": O.first_diff(a, b), "features": ["identifier-not-nfkc"]}
        return {"kind": "fstring-tree-differs", "diff": O.first_diff(a, b), "features": [f for f in feats if f != "nonascii"]}
    return None


ORACLES = {"c10": c10}


# ------------------------------------------------------------------ C05
HOLE = "hole__"
CONSTRUCTS = {
    "env": ("$HOME", "__xonsh__.env['HOME']"),
    "envexpr": ("${'a' + b}", "__xonsh__.env[str('a' + b)]"),
    "captured": ("$(ls -l)", "__xonsh__.subproc_captured('ls', '-l')"),
    "uncaptured": ("$[ls -l]", "__xonsh__.subproc_uncaptured('ls', '-l')"),
    "object": ("!(ls -l)", "__xonsh__.subproc_captured_object('ls', '-l')"),
    "hidden": ("![ls -l]", "__xonsh__.subproc_captured_hiddenobject('ls', '-l')"),
    "search": ("`a.*`", "__xonsh__.pathsearch('`a.*`')"),
    "gsearch": ("g`*.py`", "__xonsh__.pathsearch('g`*.py`')"),
    "path": ("p'/tmp'", "__xonsh__.path_literal('/tmp')"),
    "help": ("foo?", "__xonsh__.help(foo)"),
    "superhelp": ("foo??", "__xonsh__.superhelp(foo)"),
    "and": ("(hA && hB)", "(hA and hB)"),
    "or": ("(hA || hB)", "(hA or hB)"),
    "and_bare": ("hA && hB", "hA and hB"),
    "or_bare": ("hA || hB", "hA or hB"),
    "pfpath": ("pf'/tmp/{x}'", "__xonsh__.path_literal(f'/tmp/{x}')"),
    # round 5: non-ASCII names inside the sugar (the tokenizer's own patterns for them: \w in SearchPath / env names)
    "funsearch": ("@fün`*.py`", "__xonsh__.pathsearch('@fün`*.py`')"),
    "envuni": ("$HÖME", "__xonsh__.env['HÖME']"),
    "helpuni": ("föo?", "__xonsh__.help(föo)"),
    "nested": ("$(echo $(pwd) $HOME)", "__xonsh__.subproc_captured('echo', __xonsh__.subproc_captured('pwd'), __xonsh__.env['HOME'])"),
}
_TARGET_FIELDS = {
    ("Assign", "targets"), ("AugAssign", "target"), ("AnnAssign", "target"), ("AnnAssign", "annotation"), ("arg", "annotation"),
    ("FunctionDef", "returns"), ("AsyncFunctionDef", "returns"), ("Delete", "targets"), ("For", "target"), ("AsyncFor", "target"),
    ("withitem", "optional_vars"), ("comprehension", "target"), ("NamedExpr", "target"), ("TypeAlias", "name"),
}


def _hole_status(tree):
    """('load', node) if the placeholder Name is an admissible expression hole, else (reason, None)"""
    found = []
    in_subproc = []

    def is_subproc(n):
        return (isinstance(n, ast.Call) and isinstance(n.func, ast.Attribute) and n.func.attr.startswith("subproc_")
                and isinstance(n.func.value, ast.Name) and n.func.value.id == "__xonsh__")

    def walk(n, path, sub):
        sub = sub or is_subproc(n)
        for f in n._fields:
            v = getattr(n, f, None)
            items = v if isinstance(v, list) else [v]
            for x in items:
                if isinstance(x, ast.AST):
                    p2 = path + [(type(n).__name__, f, isinstance(v, list) and f == "decorator_list")]
                    if isinstance(x, ast.Name) and x.id == HOLE:
                        found.append((x, p2))
                        in_subproc.append(sub)
                    walk(x, p2, sub)
    walk(tree, [], False)
    if len(found) != 1:
        return "placeholder-count-%d" % len(found), None
    node, path = found[0]
    if in_subproc[0]:
        return "inside-subprocess", None     # the text of a subprocess bracket is split into command words: not an expression position
    if not isinstance(node.ctx, ast.Load):
        return "not-load", None
    for tn, f, _ in path:
        if (tn, f) in _TARGET_FIELDS:
            return "inside-target-or-annotation", None
    if path and path[-1][1] == "decorator_list":
        return "directly-after-decorator", None
    return "load", node


def strip_pos(tree):
    return ast.dump(tree, include_attributes=False)


def c05(X, template, construct, mode="exec"):
    """template contains '@@' once; construct is a key of CONSTRUCTS"""
    text, trans = CONSTRUCTS[construct]
    nholes = template.count("@@")
    if nholes < 1:
        return None
    if nholes > 1:
        # the same construct in several holes of one program: every hole must be admissible on its own
        pieces = template.split("@@")
        for i in range(nholes):
            one = "@@".join(pieces[:i + 1]).replace("@@", "hX") + "@@" + "hX".join(pieces[i + 1:])
            kp, tp = O.run_parse(X, one.replace("@@", HOLE), mode)
            if kp != "ok" or _hole_status(tp)[0] != "load":
                return None
        kt, tt = O.run_parse(X, template.replace("@@", trans), mode)
        kc, tc = O.run_parse(X, template.replace("@@", text), mode)
        if kt != "ok":
            return None
        if kc != "ok":
            return {"kind": "construct-rejected-in-context", "observed": [kc, O.exc_sig(tc) if isinstance(tc, BaseException) else None],
                    "expected": "same tree as the written-out translation", "source": template.replace("@@", text)}
        a, b = strip_pos(tc), strip_pos(tt)
        if a != b:
            return {"kind": "desugaring-differs", "diff": O.first_diff(a, b), "source": template.replace("@@", text)}
        return None
    kp, tp = O.run_parse(X, template.replace("@@", HOLE), mode)
    if kp != "ok":
        return None
    st, node = _hole_status(tp)
    if st != "load":
        return None
    kt, tt = O.run_parse(X, template.replace("@@", trans), mode)
    if kt != "ok":
        return None   # the written-out Python must itself be acceptable in this context
    src = template.replace("@@", text)
    kc, tc = O.run_parse(X, src, mode)
    if kc != "ok":
        return {"kind": "construct-rejected-in-context", "observed": [kc, O.exc_sig(tc) if isinstance(tc, BaseException) else None],
                "expected": "same tree as the written-out translation", "source": src}
    a, b = strip_pos(tc), strip_pos(tt)
    if a != b:
        return {"kind": "desugaring-differs", "diff": O.first_diff(a, b), "source": src}
    # span of the construct node = the inserted text range
    i = template.index("@@")
    line = template.count("\n", 0, i) + 1
    col = i - (template.rfind("\n", 0, i) + 1)
    if "\n" in text:
        return None
    if construct in ("and_bare", "or_bare"):
        return None      # an infix construct merges with neighbouring operators of the same kind: no node of its own
    inner_l, inner_r = (1, 1) if construct in ("and", "or") else (0, 0)
    want = (line, col + inner_l, line, col + len(text) - inner_r)
    spans = [(getattr(n, "lineno", None), getattr(n, "col_offset", None), getattr(n, "end_lineno", None), getattr(n, "end_col_offset", None))
             for n in ast.walk(tc) if isinstance(n, ast.expr)]
    if want not in spans:
        near = [s for s in spans if s[0] == line and s[1] is not None and abs(s[1] - want[1]) <= 2][:4]
        return {"kind": "construct-span-differs", "observed": near, "expected": list(want), "source": src}
    return None


def c05_target(X, template, construct="env", mode="exec"):
    """$NAME / ${expr} as binding targets: template has '@@' in a Store position of the placeholder run"""
    text, trans = CONSTRUCTS[construct]
    kp, tp = O.run_parse(X, template.replace("@@", HOLE), mode)
    if kp != "ok":
        return None
    names = [n for n in ast.walk(tp) if isinstance(n, ast.Name) and n.id == HOLE]
    if len(names) != 1 or not isinstance(names[0].ctx, ast.Store):
        return None
    for n in ast.walk(tp):
        if isinstance(n, (ast.AugAssign, ast.AnnAssign, ast.NamedExpr, ast.Global, ast.Nonlocal)) and any(x is names[0] for x in ast.walk(n)):
            return None
        if isinstance(n, (ast.FunctionDef, ast.ClassDef, ast.AsyncFunctionDef)) and n.name == HOLE:
            return None
    src = template.replace("@@", text)
    kc, tc = O.run_parse(X, src, mode)
    if kc != "ok":
        return {"kind": "env-target-rejected", "observed": [kc, O.exc_sig(tc) if isinstance(tc, BaseException) else None], "expected": "accepted with Store context", "source": src}
    subs = [n for n in ast.walk(tc) if isinstance(n, ast.Subscript) and isinstance(n.value, ast.Attribute) and n.value.attr == "env"]
    if not subs or not any(isinstance(n.ctx, ast.Store) for n in subs):
        return {"kind": "env-target-not-store", "observed": [type(n.ctx).__name__ for n in subs], "expected": "Store", "source": src}
    return None


ORACLES.update({"c05": c05, "c05_target": c05_target})


# ------------------------------------------------------------------ C06
import keyword as _kw

FORMS = {"$(": (")", "subproc_captured"), "$[": ("]", "subproc_uncaptured"), "!(": (")", "subproc_captured_object"),
         "![": ("]", "subproc_captured_hiddenobject")}
_OPENERS = {"(": ")", "[": "]", "{": "}"}
WS = " \t\n"


def split_words(body):
    """[(start, end, text)] of whitespace-separated words; quotes and brackets protect whitespace. None = outside the model's domain"""
    words = []
    i, n = 0, len(body)
    while i < n:
        if body[i] in WS:
            i += 1
            continue
        j = i
        stack = []
        while j < n and (stack or body[j] not in WS):
            c = body[j]
            if c in "'\"":
                q = body[j:j + 3] if body[j:j + 3] in ("'''", '"""') else c     # a triple-quoted string may span lines (round 5)
                k = j + len(q)
                while k < n and body[k:k + len(q)] != q:
                    if body[k] == "\\" or (body[k] == "\n" and len(q) == 1):
                        return None
                    k += 1
                if k >= n:
                    return None
                j = k + len(q)
                continue
            if c in _OPENERS:
                lead = body[max(i, j - 2):j]
                if not ((c == "(" and (lead.endswith(("$", "!", "@")))) or (c == "[" and lead.endswith(("$", "!")))) and not stack:
                    return None   # bare parenthesised / bracketed groups are outside the property's domain
                if c == "{":
                    return None
                stack.append(_OPENERS[c])
            elif c in ")]}":
                if not stack or stack[-1] != c:
                    return None
                stack.pop()
            elif c in "#`\\!?" :
                empty_macro = c == "!" and stack and j + 1 < n and body[j + 1] == stack[-1] and j > 0 and (body[j - 1].isalnum() or body[j - 1] == "_")
                # `$(cmd!)` nested in a word: a subprocess macro with an empty argument is one piece of the outer word (round 5)
                if not (c == "!" and j + 1 < n and body[j + 1] in "([") and not empty_macro:
                    return None
            elif c == "$" and not (j + 1 < n and (body[j + 1].isidentifier() or body[j + 1] in "([")):
                return None   # a dangling '$' is not part of the alphabet
            if c == "@" and body[j:j + 2] == "@(":
                # @(expr): the Python expression must itself be valid
                d, k2 = 0, j + 1
                while k2 < n:
                    if body[k2] in "([{":
                        d += 1
                    elif body[k2] in ")]}":
                        d -= 1
                        if d == 0:
                            break
                    k2 += 1
                if k2 >= n or O.cpy_parse(body[j + 2:k2].strip() or "(", "eval")[0] != "ok":
                    return None
            j += 1
        if stack:
            return None
        words.append((i, j, body[i:j]))
        i = j
    return words


def _single_group(w, open_len):
    """w starts with an opener of open_len chars whose matching closer is w's last character"""
    depth = 0
    i = open_len - 1
    q = None
    while i < len(w):
        c = w[i]
        if q:
            if c == q:
                q = None
        elif c in "'\"":
            q = c
        elif c in "([{":
            depth += 1
        elif c in ")]}":
            depth -= 1
            if depth == 0:
                return i == len(w) - 1
        i += 1
    return False


def _is_env_lookup(n, name=None):
    ok = (isinstance(n, ast.Subscript) and isinstance(n.value, ast.Attribute) and n.value.attr == "env"
          and isinstance(n.value.value, ast.Name) and n.value.value.id == "__xonsh__" and isinstance(n.slice, ast.Constant))
    return ok and (name is None or n.slice.value == name)


def _call_name(n):
    if isinstance(n, ast.Call) and isinstance(n.func, ast.Attribute) and isinstance(n.func.value, ast.Name) and n.func.value.id == "__xonsh__":
        return n.func.attr
    return None


def check_args(X, args, body, base_col, line, why):
    """compare the argument nodes of one subprocess call with the word model of its body text; appends problems to `why`"""
    words = split_words(body)
    if words is None:
        return False
    if len(args) != len(words):
        why.append(f"{len(args)} arguments for {len(words)} words {[w for _, _, w in words]}")
        return True
    def at(off):
        nl = body.count("\n", 0, off)
        if nl == 0:
            return line, base_col + off
        return line + nl, off - (body.rfind("\n", 0, off) + 1)
    for a, (s, e, w) in zip(args, words):
        span_ok = (a.lineno, a.col_offset, a.end_lineno, a.end_col_offset) == (*at(s), *at(e))
        if not span_ok:
            why.append(f"word {w!r}: span {(a.lineno, a.col_offset, a.end_lineno, a.end_col_offset)} expected {at(s)}..{at(e)}")
            continue
        m = re.fullmatch(r"\$([A-Za-z_]\w*)", w)
        if m:
            if not _is_env_lookup(a, m.group(1)):
                why.append(f"word {w!r}: expected environment lookup, got {type(a).__name__}")
            continue
        if w.startswith("@(") and _single_group(w, 2) and w.count("@(") == 1:
            inner = w[2:-1]
            ok = isinstance(a, ast.Starred) and _call_name(a.value) == "list_of_strs_or_callables" and len(a.value.args) == 1
            if ok:
                k, t = O.run_parse(X, inner.strip() + "\n", "eval")
                if k == "ok" and ast.dump(t.body) != ast.dump(a.value.args[0]):
                    ok = False
            if not ok:
                why.append(f"word {w!r}: expected *list_of_strs_or_callables({inner})")
            continue
        if w.startswith("@$(") and _single_group(w, 3):
            ok = isinstance(a, ast.Starred) and _call_name(a.value) == "subproc_captured_inject"
            if not ok:
                why.append(f"word {w!r}: expected *subproc_captured_inject(...)")
            else:
                check_args(X, a.value.args, w[3:-1], at(s + 3)[1], at(s + 3)[0], why)
            continue
        nested = next((f for f in FORMS if w.startswith(f) and _single_group(w, 2)), None)
        if nested:
            if _call_name(a) != FORMS[nested][1]:
                why.append(f"word {w!r}: expected nested {FORMS[nested][1]}")
            else:
                check_args(X, a.args, w[2:-1], at(s + 2)[1], at(s + 2)[0], why)
            continue
        if "$" in w or "@(" in w or "@$(" in w or any(f in w for f in FORMS) or "{" in w or "(" in w or "[" in w:
            continue   # glued mixed word: only count and span are modelled
        if not (isinstance(a, ast.Constant) and a.value == w):
            why.append(f"word {w!r}: expected Constant({w!r}), got {ast.dump(a)[:80]}")
    return True


def c06(X, form, body):
    """form in FORMS, body = command text between the brackets"""
    closer, method = FORMS[form]
    src = form + body + closer + "\n"
    if split_words(body) is None or not split_words(body) or re.search(r"[$!@][(\[]\s*[)\]]", body):
        return None     # (an empty nested form is not a command)
    why = []
    k, t = O.run_parse(X, src, "exec")
    words = split_words(body)
    for part in re.findall(r"[^\W\d]\w*", re.sub(r"'[^']*'|\"[^\"]*\"", "", body)):
        if _kw.iskeyword(part) or part in ("True", "False", "None"):
            return None   # reserved words are outside the property's alphabet
    if k != "ok":
        v = {"kind": "subprocess-rejected", "observed": [k, O.exc_sig(t) if isinstance(t, BaseException) else None], "expected": f"{method}({[w for _, _, w in words]})",
             "source": src}
        if isinstance(t, SyntaxError) and t.msg == "cannot mix bytes and nonbytes literals" and re.search(r"""(?<![\w])[bB][rR]?['"]|(?<![\w])[rR][bB]['"]|['"][bB][rR]?['"]|['"][rR][bB]['"]""", body):
            v["feature"] = "bytes-and-str-literals-in-one-subprocess"
        return v
    try:
        call = t.body[0].value
    except (AttributeError, IndexError):
        return {"kind": "not-a-call", "observed": ast.dump(t)[:200], "expected": method, "source": src}
    if _call_name(call) != method:
        return {"kind": "wrong-runtime-method", "observed": _call_name(call), "expected": method, "source": src}
    check_args(X, call.args, body, len(form), 1, why)
    if why:
        return {"kind": "arguments-differ-from-word-model", "observed": why[:4], "expected": [w for _, _, w in words], "source": src}
    return None


ORACLES.update({"c06": c06})


# ------------------------------------------------------------------ C07
import textwrap as _tw


def split_macro_args(text):
    """top-level comma split of the text between '!(' and its ')'; brackets and string literals protect commas.
    returns list of argument texts, or None when brackets/quotes are not balanced (outside the domain)"""
    args, cur, stack = [], [], []
    i, n = 0, len(text)
    while i < n:
        c = text[i]
        if c in "'\"":
            q = text[i:i + 3] if text[i:i + 3] in ("'''", '"""') else c
            k = i + len(q)
            while k < n and text[k:k + len(q)] != q:
                if text[k] == "\\":
                    k += 1
                elif text[k] == "\n" and len(q) == 1:
                    return None
                k += 1
            if k >= n:
                return None
            lit = text[i:k + len(q)]
            pre = "".join(cur)[-3:].lower()
            if "f" in pre.lstrip("0123456789 ,([{=+-*/%<>!&|^~:;.") and "\\\n" in lit:
                return None     # a backslash continuation inside a replacement field is code, not literal text: outside the model like any top-level backslash
            if "f" in pre.lstrip("0123456789 ,([{=+-*/%<>!&|^~:;.") and any(ch in lit for ch in "()[]{}"):
                st = []
                for ch in lit:
                    if ch in "([{":
                        st.append({"(": ")", "[": "]", "{": "}"}[ch])
                    elif ch in ")]}":
                        if not st or st.pop() != ch:
                            return None     # an f-string whose fields hold unbalanced brackets is not a complete literal
                if st:
                    return None
            cur.append(lit)
            i = k + len(q)
            continue
        if c == "#":
            return None     # a comment swallows the rest of the line including brackets: kept outside the model
        if c == "\\":
            return None
        if c in "([{":
            stack.append({"(": ")", "[": "]", "{": "}"}[c])
        elif c in ")]}":
            if not stack or stack[-1] != c:
                return None
            stack.pop()
        elif c == "," and not stack:
            args.append("".join(cur))
            cur = []
            i += 1
            continue
        cur.append(c)
        i += 1
    if stack:
        return None
    args.append("".join(cur))
    return args


def _find_calls(tree, attr):
    return [n for n in ast.walk(tree) if _call_name(n) == attr]


def c07_call(X, pre, args_text, post=""):
    """pre + 'f!(' + args_text + ')' + post : arguments are the verbatim texts between top-level commas"""
    args = split_macro_args(args_text)
    if args is None:
        return None
    # prefixes that look like string prefixes glue to a following quote; tokens must also be lexable
    want = [a for a in args if a.strip()]
    src = f"{pre}f!({args_text}){post}\n"
    tk, toks = O.run_tokens(X, src)
    if tk != "ok":
        return None   # text the tokenizer rejects (e.g. an odd character) cannot be captured: outside the domain
    if any(t.type == X.tokenize.Token.ERRORTOKEN for t in toks):
        return None
    k, t = O.run_parse(X, src, "exec")
    if k != "ok":
        return {"kind": "call-macro-rejected", "observed": [k, O.exc_sig(t) if isinstance(t, BaseException) else None], "expected": want, "source": src}
    calls = sorted(_find_calls(t, "call_macro"), key=lambda c: (c.end_lineno, c.end_col_offset))   # by END: chained calls share their start
    n_expected = 1 + pre.count("!(") + post.count("!(") + sum(a.count("!(") for a in ()) 
    if len(calls) != n_expected:
        return {"kind": "call-macro-count", "observed": len(calls), "expected": n_expected, "source": src}
    tup = calls[pre.count("!(")].args[1]
    got = [e.value for e in tup.elts] if isinstance(tup, ast.Tuple) else None
    if got != want:
        return {"kind": "macro-arguments-differ", "observed": got, "expected": want, "source": src}
    # the code around the macro is unaffected: same tree as with a trivial argument, positions aside
    k0, t0 = O.run_parse(X, f"{pre}f!(x){post}\n", "exec")
    if k0 == "ok":
        def masked(tree):
            for c in _find_calls(tree, "call_macro"):
                c.args[1] = ast.Constant(value="<args>")
            return ast.dump(tree)
        if masked(t) != masked(t0):
            return {"kind": "code-around-macro-differs", "observed": O.first_diff(masked(t), masked(t0)), "expected": "unaffected", "source": src}
    return None


def c07_sub(X, form, cmd, rest, after=""):
    """form + cmd + '!' + rest + closer + after: the rest of the bracket's text, stripped, as one string; `after` (code on the same
    line behind ';' and/or on later lines) parses as it does behind a macro-free subprocess"""
    closer, method = FORMS[form]
    if any(c in rest for c in "()[]{}'\"#\\`\n") or closer in rest or rest[:1] in ("=", "(", "["):
        return None
    src = f"{form}{cmd}!{rest}{closer}{after}\n"
    tk, toks = O.run_tokens(X, src)
    if tk != "ok" or any(t.type == X.tokenize.Token.ERRORTOKEN for t in toks):
        return None
    k, t = O.run_parse(X, src, "exec")
    if k != "ok":
        return {"kind": "subproc-macro-rejected", "observed": [k, O.exc_sig(t) if isinstance(t, BaseException) else None], "expected": [cmd, rest.strip()], "source": src}
    calls = _find_calls(t, method)
    if not calls:
        return {"kind": "subproc-macro-no-call", "observed": ast.dump(t)[:200], "expected": method, "source": src}
    a = calls[0].args
    got = [x.value if isinstance(x, ast.Constant) else ast.dump(x)[:40] for x in a]
    if got != [cmd, rest.strip()]:
        return {"kind": "subproc-macro-arguments-differ", "observed": got, "expected": [cmd, rest.strip()], "source": src}
    if after:
        k0, t0 = O.run_parse(X, f"{form}{cmd} x{closer}{after}\n", "exec")
        if k0 == "ok":
            def masked(tree):
                c = sorted(_find_calls(tree, method), key=lambda c: (c.lineno, c.col_offset))[0]
                c.args[:] = [ast.Constant(value="<args>")]
                return ast.dump(tree)
            if masked(t) != masked(t0):
                return {"kind": "code-after-subproc-macro-differs", "observed": masked(t)[:300], "expected": masked(t0)[:300], "source": src}
    return None


def with_block_model(block_lines):
    strict = list(block_lines)
    while strict and (strict[-1].strip() == "" or strict[-1].lstrip().startswith("#")):
        strict.pop()
    return _tw.dedent("".join(strict)), _tw.dedent("".join(block_lines))


def c07_with(X, header, block, after):
    """header 'with! ctx:\\n' (any indentation 0), block = indented lines, after = following statements at column 0"""
    src = header + block + after
    if not block.endswith("\n") or "\\" in block or "\x0c" in block:
        return None
    code = [ln for ln in block.split("\n") if ln.strip() and not ln.lstrip().startswith("#")]
    if code:
        ind0 = len(code[0]) - len(code[0].lstrip(" \t"))
        if ind0 == 0 or any(len(ln) - len(ln.lstrip(" \t")) < ind0 or ln[:ind0] != code[0][:ind0] for ln in code):
            return None   # every block line must be indented at least like the first one
    lines = [ln + "\n" for ln in block.split("\n")[:-1]]
    if not lines or not any(ln.strip() and not ln.lstrip().startswith("#") for ln in lines):
        return None
    tk, toks = O.run_tokens(X, src)
    if tk != "ok" or any(t.type == X.tokenize.Token.ERRORTOKEN for t in toks):
        return None
    # split trailing blank/comment lines that precede `after`
    strict, full = with_block_model(lines)
    k, t = O.run_parse(X, src, "exec")
    if k != "ok":
        return {"kind": "with-macro-rejected", "observed": [k, O.exc_sig(t) if isinstance(t, BaseException) else None], "expected": strict, "source": src}
    first = t.body[0] if t.body else None
    calls = _find_calls(first, "enter_macro") if first is not None else []
    if len(calls) != 1:
        return {"kind": "with-macro-count", "observed": len(calls), "expected": 1, "source": src}
    got = calls[0].args[1].value if isinstance(calls[0].args[1], ast.Constant) else None
    if got != strict:
        # classify the pinned / known deviations: extra trailing blank or comment lines
        n_strict = len(lines)
        while n_strict and (lines[n_strict - 1].strip() == "" or lines[n_strict - 1].lstrip().startswith("#")):
            n_strict -= 1
        extra = lines[n_strict:]
        feat = None
        if extra and all(x.strip() == "" for x in extra) and got == full:
            return None      # trailing blank lines inside the block are pinned by the repo's own tests
        if extra and all(x.strip() == "" or x.lstrip().startswith("#") for x in extra):
            feat = "with-macro-trailing-comment-lines"
        v = {"kind": "with-macro-body-differs", "observed": got, "expected": strict, "source": src}
        if feat:
            v["feature"] = feat
        return v
    if after.strip():
        ka, ta = O.run_parse(X, after, "exec")
        if ka == "ok":
            a = [ast.dump(s) for s in t.body[1:]]
            b = [ast.dump(s) for s in ta.body]
            if a != b:
                return {"kind": "statement-after-macro-differs", "observed": a[:2], "expected": b[:2], "source": src}
    return None


def c07_with1(X, ctx, rest, after):
    """one-line form: 'with! ctx:' + rest + '\\n' + after ; body = rest + newline"""
    if "\n" in rest or not rest.strip() or any(c in rest for c in "#\\'\"`") or rest[:1] == "=":
        return None
    src = f"with! {ctx}:{rest}\n{after}"
    tk, toks = O.run_tokens(X, src)
    if tk != "ok" or any(t.type == X.tokenize.Token.ERRORTOKEN for t in toks):
        return None
    depth = 0
    for c in rest:
        depth += c in "([{"
        depth -= c in ")]}"
        if depth < 0:
            return None
    if depth:
        return None
    k, t = O.run_parse(X, src, "exec")
    if k != "ok":
        return {"kind": "with-macro-rejected", "observed": [k, O.exc_sig(t) if isinstance(t, BaseException) else None], "expected": rest + "\n", "source": src}
    calls = _find_calls(t, "enter_macro")
    got = calls[0].args[1].value if calls and isinstance(calls[0].args[1], ast.Constant) else None
    if got != rest + "\n":
        return {"kind": "with-macro-body-differs", "observed": got, "expected": rest + "\n", "source": src}
    if after.strip():
        ka, ta = O.run_parse(X, after, "exec")
        if ka == "ok" and [ast.dump(s) for s in t.body[1:]] != [ast.dump(s) for s in ta.body]:
            return {"kind": "statement-after-macro-differs", "observed": "", "expected": "", "source": src}
    return None


ORACLES.update({"c07_call": c07_call, "c07_sub": c07_sub, "c07_with": c07_with, "c07_with1": c07_with1})


# ------------------------------------------------------------------ C16
def _normalised_methods(path):
    tree = ast.parse(open(path, encoding="utf-8").read())
    out = {}
    for n in tree.body:
        if isinstance(n, ast.ClassDef):
            for m in n.body:
                if isinstance(m, (ast.FunctionDef, ast.AsyncFunctionDef)):
                    m.returns = None
                    deco = [ast.dump(d) for d in m.decorator_list]
                    out[f"{n.name}.{m.name}"] = ast.dump(m)
                    out[f"{n.name}.{m.name}@decorators"] = repr(deco)
                elif isinstance(m, ast.Assign):
                    out[f"{n.name}.{ast.unparse(m.targets[0])}="] = ast.dump(m.value)
                elif isinstance(m, ast.AnnAssign) and m.value is not None:
                    out[f"{n.name}.{ast.unparse(m.target)}="] = ast.dump(m.value)
    return out


def regenerate(repo, which, out_path, hashseed=None):
    """run the documented generation step of the working tree into out_path (outside the repo); returns (rc, stderr)"""
    import os
    import subprocess
    env = {**os.environ, "PYTHONPATH": repo, "PYTHONDONTWRITEBYTECODE": "1"}
    if hashseed is not None:
        env["PYTHONHASHSEED"] = str(hashseed)
    if which == "xonsh":
        cmd = [sys.executable, "tasks/generator.py", "-g", "tasks/xonsh.gram", "-o", out_path]
    else:
        cmd = [sys.executable, "-m", "pegen", "pegen/metagrammar.gram", "-o", out_path, "-q"]
    p = subprocess.run(cmd, cwd=repo, env=env, capture_output=True, text=True, timeout=300)
    return p.returncode, p.stderr[-500:]


def c16(X, which="xonsh", repo=O.REPO_DEFAULT):
    import os
    import shutil
    import tempfile
    d = tempfile.mkdtemp(prefix="c16_")
    try:
        out = os.path.join(d, "gen.py")
        rc, err = regenerate(repo, which, out)
        if rc != 0 or not os.path.exists(out):
            return {"kind": "generation-failed", "observed": err, "expected": "generator runs on the working tree's grammar"}
        shipped = os.path.join(repo, "peg_parser/parser.py" if which == "xonsh" else "pegen/grammar_parser.py")
        a, b = _normalised_methods(out), _normalised_methods(shipped)
        missing = sorted(set(a) - set(b))
        extra = sorted(set(b) - set(a))
        diff = sorted(k for k in a if k in b and a[k] != b[k])
        if missing or extra or diff:
            return {"kind": "shipped-differs-from-generated", "observed": {"only_generated": missing[:6], "only_shipped": extra[:6], "different": diff[:10]},
                    "expected": "same methods, bodies and keyword tables"}
        # determinism across hash seeds
        base = open(out, encoding="utf-8").read()
        for hs in (0, 1, 12345):
            out2 = os.path.join(d, f"gen{hs}.py")
            rc, err = regenerate(repo, which, out2, hashseed=hs)
            if rc != 0:
                return {"kind": "generation-failed", "observed": err, "expected": f"generator runs with PYTHONHASHSEED={hs}"}
            if open(out2, encoding="utf-8").read() != base:
                return {"kind": "generation-not-deterministic", "observed": f"output differs with PYTHONHASHSEED={hs}", "expected": "identical output"}
    finally:
        shutil.rmtree(d, ignore_errors=True)
    return None


ORACLES.update({"c16": c16})


# ------------------------------------------------------------------ C12
ENVS = {
    "C-ascii": {"LC_ALL": "C", "LANG": "C", "PYTHONCOERCECLOCALE": "0", "PYTHONUTF8": "0"},
    "C-utf8mode": {"LC_ALL": "C", "LANG": "C", "PYTHONCOERCECLOCALE": "0", "PYTHONUTF8": "1"},
    "C.utf8": {"LC_ALL": "C.utf8", "LANG": "C.utf8", "PYTHONUTF8": "0"},
}
_CHILD = r'''
import sys, json, ast, os, tempfile, pathlib
sys.path.insert(0, sys.argv[1])
from peg_parser.parser import XonshParser
def obs(f):
    try:
        t = f()
        return ["ok", ast.dump(t, include_attributes=True)]
    except SyntaxError as e:
        return [type(e).__name__, e.msg, e.lineno, e.offset, e.text, e.end_lineno, e.end_offset]
    except RecursionError:
        return ["RecursionError"]
    except Exception as e:
        return ["EXC:" + type(e).__name__, str(e)[:200]]
out = []
d = tempfile.mkdtemp(prefix="c12_")
try:
    for i, content in enumerate(json.load(sys.stdin)):
        p = pathlib.Path(d) / f"m{i}.py"
        data = content.encode("utf-8", "surrogatepass")
        p.write_bytes(data)
        a = obs(lambda: XonshParser.parse_file(p))
        b = obs(lambda: XonshParser.parse_string(content, mode="exec"))
        out.append([a, b])
        p.unlink()
finally:
    os.rmdir(d)
print(json.dumps(out))
'''


def file_vs_string(contents, env_name, repo=O.REPO_DEFAULT, timeout=300):
    """run parse_file and parse_string on each content in a child interpreter started with the given environment"""
    import json
    import os
    import subprocess
    env = {k: v for k, v in os.environ.items() if not k.startswith(("LC_", "LANG", "PYTHONUTF8", "PYTHONCOERCE", "PYTHONIOENCODING"))}
    env.update(ENVS[env_name])
    env["PYTHONDONTWRITEBYTECODE"] = "1"
    p = subprocess.run(["/venv/bin/python", "-c", _CHILD, repo], input=json.dumps(contents), capture_output=True, text=True, env=env, timeout=timeout, encoding="utf-8")
    if p.returncode != 0:
        return None, p.stderr[-400:]
    return json.loads(p.stdout), None


def universal(text):
    return text.replace("\r\n", "\n").replace("\r", "\n")


def c12(X, content, env_name="C-ascii", repo=O.REPO_DEFAULT):
    if "\x00" in content:
        return None
    try:
        content.encode("utf-8")
    except UnicodeEncodeError:
        return None     # a lone surrogate cannot be the content of a UTF-8 file: no 'same content' exists for the file entry point
    res, err = file_vs_string([content], env_name, repo)
    if res is None:
        return {"kind": "child-interpreter-failed", "observed": err, "expected": "comparison ran"}
    a, b = res[0]
    if a != b:
        feat = {}
        if re.search(r"\r", content):
            # text-mode files translate newlines, strings do not: the same comparison with the translated string
            res2, _ = file_vs_string([universal(content)], env_name, repo)
            if res2 is not None and res2[0][0] == res2[0][1] and res2[0][0] == a:
                feat = {"feature": "newline-translation-only"}
        return {"kind": "file-and-string-disagree", "observed": {"file": str(a)[:300], "string": str(b)[:300]}, "env": env_name,
                "expected": "same tree / same error", **feat}
    return None


ORACLES.update({"c12": c12})


# ------------------------------------------------------------------ C13
def _fp(v, depth=0, seen=None):
    import types as _t
    if seen is None:
        seen = set()
    if isinstance(v, (str, int, float, bool, type(None), bytes, complex)):
        return repr(v)
    if id(v) in seen or depth > 6:
        return "<...>"
    seen = seen | {id(v)}
    if isinstance(v, dict):
        return "{" + ",".join(sorted(f"{_fp(k, depth + 1, seen)}:{_fp(x, depth + 1, seen)}" for k, x in v.items())) + "}"
    if isinstance(v, (set, frozenset)):
        return "set(" + ",".join(sorted(_fp(x, depth + 1, seen) for x in v)) + ")"
    if isinstance(v, (list, tuple)):
        return type(v).__name__ + "[" + ",".join(_fp(x, depth + 1, seen) for x in v) + "]"
    if isinstance(v, type):
        items = []
        for k, x in vars(v).items():
            if k in ("__dict__", "__weakref__", "__doc__", "__module__", "__annotations__", "_abc_impl", "__parameters__", "__orig_bases__"):
                continue
            items.append(f"{k}={_fp(x, depth + 1, seen)}")
        return f"class {v.__name__}(" + ",".join(sorted(items)) + ")"
    if isinstance(v, (_t.FunctionType, _t.BuiltinFunctionType, _t.MethodType, staticmethod, classmethod, property)):
        f = getattr(v, "__func__", v)
        return f"fn:{getattr(f, '__qualname__', '?')}:{id(getattr(f, '__code__', f))}"
    if isinstance(v, _t.ModuleType):
        return f"module:{v.__name__}"
    if hasattr(v, "cache_info") and hasattr(v, "__wrapped__"):
        return f"lru:{getattr(v.__wrapped__, '__qualname__', '?')}"   # the regex compile cache is keyed by the full pattern: exempt
    if isinstance(v, ast.AST):
        return f"ast:{type(v).__name__}:{_fp(vars(v), depth + 1, seen)}"
    if hasattr(v, "__dict__") and not callable(v):
        return f"obj:{type(v).__name__}:{_fp(vars(v), depth + 1, seen)}"
    return f"{type(v).__name__}:{repr(v)[:80] if not callable(v) else getattr(v, '__qualname__', '?')}"


def module_state(ns):
    """fingerprint of everything reachable from the module and class globals of the four peg_parser modules"""
    out = {}
    for mname in ("tokenize", "tokenizer", "subheader", "parser"):
        mod = getattr(ns, mname)
        for k, v in vars(mod).items():
            if k.startswith("__") and k not in ("__all__",):
                continue
            out[f"{mname}.{k}"] = _fp(v)
    out.update(process_state())
    return out


def process_state():
    """process-wide interpreter settings a parsing library has no business changing"""
    import os
    import sys
    import warnings
    import locale
    import decimal
    st = {"process.recursionlimit-left-changed": len(O.INTERPRETER_LEAKS), "process.switchinterval": sys.getswitchinterval(), "process.cwd": os.getcwd(),
          "process.environ": hash(frozenset(os.environ.items())), "process.sys.path": tuple(sys.path), "process.warnings.filters": len(warnings.filters),
          "process.locale": locale.setlocale(locale.LC_ALL), "process.trace": repr(sys.gettrace()), "process.profile": repr(sys.getprofile()),
          "process.int_max_str_digits": sys.get_int_max_str_digits(), "process.decimal.prec": decimal.getcontext().prec,
          "process.stdout": id(sys.stdout), "process.stderr": id(sys.stderr), "process.excepthook": id(sys.excepthook), "process.umask": _umask()}
    return {k: repr(v) for k, v in st.items()}


def _umask():
    import os
    m = os.umask(0o22)
    os.umask(m)
    return m


def state_diff(a, b):
    keys = sorted(set(a) | set(b))
    return [k for k in keys if a.get(k) != b.get(k)]


def c13(X, history, repo=O.REPO_DEFAULT):
    """outcomes of a history of parse_string calls in this process vs each call alone in a fresh interpreter; module state untouched"""
    import json
    import os
    import subprocess
    before = module_state(X)
    got = []
    trees = []
    for src, mode in history:
        k, p = O.run_parse(X, src, mode)
        got.append(list(O.outcome_obs(k, p)) if k != "ok" else ["ok", O.dump(p)])
        trees.append((p, O.dump(p)) if k == "ok" else None)
    after = module_state(X)
    d = state_diff(before, after)
    if d:
        return {"kind": "module-state-changed", "observed": d[:6], "expected": "no write to module/class level state"}
    for i, t in enumerate(trees):
        if t is not None and O.dump(t[0]) != t[1]:
            return {"kind": "returned-tree-altered-by-later-parse", "observed": f"tree of call {i}", "expected": "trees share no mutable state"}
    child = r'''
import sys, json, ast
sys.path.insert(0, sys.argv[1])
from peg_parser.parser import XonshParser
src, mode = json.load(sys.stdin)
try:
    t = XonshParser.parse_string(src, mode=mode)
    print(json.dumps(["ok", ast.dump(t, include_attributes=True)]))
except SyntaxError as e:
    print(json.dumps([type(e).__name__, [type(e).__name__, e.msg, e.filename, e.lineno, e.offset, e.text, e.end_lineno, e.end_offset]]))
except Exception as e:
    kind = "TokenError" if type(e).__name__ == "TokenError" else "EXC:" + type(e).__name__
    print(json.dumps([kind, [type(e).__name__, [repr(a) for a in e.args]]]))
'''
    fresh = {}

    def norm(x):
        return json.loads(json.dumps(x))
    for (src, mode), g in zip(history, got):
        key = (src, mode)
        if key not in fresh:
            p = subprocess.run(["/venv/bin/python", "-c", child, repo], input=json.dumps([src, mode]), capture_output=True, text=True, timeout=60,
                               env={**os.environ, "PYTHONDONTWRITEBYTECODE": "1"})
            fresh[key] = json.loads(p.stdout) if p.returncode == 0 and p.stdout.strip() else ["child-failed", p.stderr[-200:]]
        f = fresh[key]
        same = norm(g) == norm(f)
        if not same:
            return {"kind": "history-dependent-result", "observed": str(g)[:200], "expected": str(f)[:200], "input": src}
    return None


def c13_threads(X, inputs, nthreads=8, rounds=3):
    """sampled schedule sweep (outside the solver-decided claim): a thread pool over shuffled inputs vs the sequential results"""
    import concurrent.futures as cf
    import random
    seq = {}
    for src, mode in inputs:
        k, p = O.run_parse(X, src, mode, wall=20.0)
        seq[(src, mode)] = O.outcome_obs(k, p)

    def work(item):
        src, mode = item
        try:
            t = X.parser.XonshParser.parse_string(src, mode=mode)
            return item, ("ok", O.dump(t))
        except Exception as e:  # noqa: BLE001
            return item, (O.classify(e, X), O.exc_sig(e))
    rng = random.Random(0)
    for _ in range(rounds):
        items = list(inputs) * 2
        rng.shuffle(items)
        with cf.ThreadPoolExecutor(nthreads) as pool:
            for item, got in pool.map(work, items):
                if got != seq[item]:
                    return {"kind": "thread-dependent-result", "observed": str(got)[:200], "expected": str(seq[item])[:200], "input": item[0]}
    return None


ORACLES.update({"c13": c13, "c13_threads": c13_threads})


# ------------------------------------------------------------------ C18
FAMILIES = {
    "paren": lambda d: "(" * d + "QQ" + ")" * d + "\n",
    "list": lambda d: "[" * d + "QQ" + "]" * d + "\n",
    "dict": lambda d: "{1:" * d + "QQ" + "}" * d + "\n",
    "set": lambda d: "{" * d + "QQ" + "}" * d + "\n",
    "call": lambda d: "f(" * d + "QQ" + ")" * d + "\n",
    "lambda": lambda d: "lambda: " * d + "QQ\n",
    "subproc": lambda d: "$(" * d + "QQ" + ")" * d + "\n",
    "pyexpr": lambda d: "$(echo " + "@(" * d + "QQ" + ")" * d + ")\n",
    "envexpr": lambda d: "${" * d + "QQ" + "}" * d + "\n",
    "sum": lambda d: "+".join(["1"] * d) + " + QQ\n",
    "args": lambda d: "f(" + ",".join(["1"] * d) + ", QQ)\n",
    "stmts": lambda d: "x=1\n" * d + "QQ\n",
    "ifnest": lambda d: "".join(" " * i + "if x:\n" for i in range(d)) + " " * d + "QQ\n",
    "comp": lambda d: "[" * d + "QQ" + " for x in y]" * d + "\n",
    "subscript": lambda d: "a" + "[a" * d + ", QQ" + "]" * d + "\n",
    "ternary": lambda d: "1 if 1 else " * d + "QQ\n",
    "not": lambda d: "not " * d + "QQ\n",
    "unary": lambda d: "-" * d + "QQ\n",
    "power": lambda d: "1**" * d + "QQ\n",
    "attr": lambda d: "a" + ".a" * d + ".QQ\n",
    "strcat": lambda d: "'a' " * d + "QQ\n",
    "tuple_target": lambda d: "(" * d + "QQ" + ",)" * d + "=1\n",
    "del": lambda d: "del " + "(" * d + "QQ" + ")" * d + "\n",
    "with": lambda d: "with " + "(" * d + "QQ" + ")" * d + ": pass\n",
    "match_seq": lambda d: "match x:\n case " + "[" * d + "QQ" + "]" * d + ": pass\n",
    "match_class": lambda d: "match x:\n case " + "C(" * d + "QQ" + ")" * d + ": pass\n",
    "match_or": lambda d: "match x:\n case " + "1 | " * d + "QQ: pass\n",
    "match_map": lambda d: "match x:\n case " + "{1: " * d + "QQ" + "}" * d + ": pass\n",
    "decorators": lambda d: "@a\n" * d + "def QQ(): pass\n",
    "fstring": lambda d: "x = " + " ".join(["f'{a}'"] * d) + " + QQ\n",
    "call_macro": lambda d: "f!(" + ", ".join(["a b"] * d) + ") + QQ\n",
    "compare": lambda d: " < ".join(["1"] * d) + " < QQ\n",
    "bool": lambda d: " and ".join(["a"] * d) + " or QQ\n",
    "slices": lambda d: "a[" + ", ".join(["1:2"] * d) + ", QQ]\n",
    "lambda_args": lambda d: "lambda " + ", ".join(f"a{i}" for i in range(d)) + ": QQ\n",
    "def_args": lambda d: "def f(" + ", ".join(f"a{i}=1" for i in range(d)) + "): QQ\n",
    "import": lambda d: "from a import " + ", ".join(f"b{i}" for i in range(d)) + ", QQ\n",
    "global": lambda d: "global " + ", ".join(f"b{i}" for i in range(d)) + ", QQ\n",
    "try": lambda d: "try:\n pass\n" + "except E:\n pass\n" * d + "else:\n QQ\n",
    "elif": lambda d: "if a:\n pass\n" + "elif b:\n pass\n" * d + "else:\n QQ\n",
    "class_nest": lambda d: "".join(" " * i + "class A:\n" for i in range(d)) + " " * d + "QQ\n",
    "await": lambda d: "await " * 1 + "(" * d + "QQ" + ")" * d + "\n",
    "star_expr": lambda d: "x = " + ", ".join(["*a"] * d) + ", QQ\n",
    "dict_items": lambda d: "{" + ", ".join(["1: 2"] * d) + ", 3: QQ}\n",
    "kwargs": lambda d: "f(" + ", ".join(f"k{i}=1" for i in range(d)) + ", z=QQ)\n",
    "genexp": lambda d: "f(" * d + "QQ for a in b" + ")" * d + "\n",
    "help": lambda d: "(" * d + "QQ?" + ")" * d + "\n",
    "pipe": lambda d: "$(" + " | ".join(["a"] * d) + " | QQ)\n",
    "lambda_default": lambda d: "lambda a=" * d + "QQ" + ": 0" * d + "\n",
    "def_default": lambda d: "def f(a=" + "lambda b=" * d + "QQ" + ": 0" * d + "): pass\n",
    "del_tuple": lambda d: "del " + "(" * d + "QQ" + ",)" * d + "\n",
    "del_list": lambda d: "del " + "[" * d + "QQ" + "]" * d + "\n",
    "for_target": lambda d: "for " + "(" * d + "QQ" + ",)" * d + " in y: pass\n",
    "with_target": lambda d: "with a as " + "(" * d + "QQ" + ",)" * d + ": pass\n",
    "star_target": lambda d: "[" * d + "*QQ" + "]" * d + " = y\n",
    "annotation": lambda d: "x: " + "a[" * d + "QQ" + "]" * d + " = 1\n",
    "decorator_call": lambda d: "@" + "f(" * d + "QQ" + ")" * d + "\ndef g(): pass\n",
    "return_tuple": lambda d: "def f():\n return " + "(" * d + "QQ" + ",)" * d + "\n",
    "dict_comp": lambda d: "{" * d + "QQ: 1" + " for k in y}" * d + "\n",
    "kwarg_nest": lambda d: "f(k=" * d + "QQ" + ")" * d + "\n",
    "slice_nest": lambda d: "a[" * d + "QQ:" + "]" * d + "\n",
    "walrus": lambda d: "(a := " * d + "QQ" + ")" * d + "\n",
    "yield_nest": lambda d: "def f():\n x = " + "(yield " * d + "QQ" + ")" * d + "\n",
    "fstring_nest": lambda d: "x = " + " + ".join(["f'{a!r:>3}b'"] * d) + " + QQ\n",
    "match_as": lambda d: "match x:\n case " + "(" * d + "QQ" + " as y)" * d + ": pass\n",
    "type_params": lambda d: "def f[" + ", ".join(f"T{i}" for i in range(d)) + "](QQ): pass\n",
    "env_target": lambda d: ", ".join(["$A"] * d) + ", QQ = y\n",
    "macro_args": lambda d: "f!(" + "(" * d + "a" + ")" * d + ") + QQ\n",
    "with_macro": lambda d: "with! c:\n" + " x y\n" * d + "QQ\n",
}


def measure_work(X, src, mode="exec", limit=None):
    """(token reads + resets made by a parse, number of tokens, outcome kind)"""
    counts = [0]

    class CT(X.tokenizer.Tokenizer):
        def getnext(self):
            counts[0] += 1
            return super().getnext()

        def peek(self):
            counts[0] += 1
            if limit is not None and counts[0] > limit:
                raise O._Timeout()
            return super().peek()

        def reset(self, i):
            counts[0] += 1
            return super().reset(i)
    tz = CT(X.tokenize.generate_tokens(io.StringIO(src).readline))
    p = X.parser.XonshParser(tz)
    tl = O.time_limit(60.0)
    kind = "HANG"
    if sys.getrecursionlimit() < 20000:
        sys.setrecursionlimit(20000)     # work is measured independently of the recursion limit
    with tl:
        try:
            p.parse(mode if mode == "eval" else "file")
            kind = "ok"
        except RecursionError:
            kind = "RecursionError"
        except O._Timeout:
            raise
        except Exception as e:  # noqa: BLE001
            kind = O.classify(e, X)
    return counts[0], len(tz._tokens), kind


def substitute_marker(text, repl):
    i = text.index("QQ")
    return text[:i] + repl + text[i + 2:]


def growth_violation(ws, slack=300):
    """ws = [W(s), W(2s), W(4s)]: work increments may at most double (up to a constant)"""
    w1, w2, w4 = ws
    if w4 - w2 > 2.5 * (w2 - w1) + slack or w4 > 4.6 * w1 + 4 * slack:
        return f"W(s), W(2s), W(4s) = {ws}: increments {w2 - w1} -> {w4 - w2}"
    return None


def first_pass_work(X, src, mode="exec", limit=None):
    """work of the first pass alone (the start rule called directly, invalid_* rules disabled)"""
    counts = [0]

    class CT(X.tokenizer.Tokenizer):
        def getnext(self):
            counts[0] += 1
            return super().getnext()

        def peek(self):
            counts[0] += 1
            if limit is not None and counts[0] > limit:
                raise O._Timeout()
            return super().peek()

        def reset(self, i):
            counts[0] += 1
            return super().reset(i)
    tz = CT(X.tokenize.generate_tokens(io.StringIO(src).readline))
    p = X.parser.XonshParser(tz)
    p.call_invalid_rules = False
    if sys.getrecursionlimit() < 20000:
        sys.setrecursionlimit(20000)
    with O.time_limit(60.0):
        try:
            getattr(p, mode if mode == "eval" else "file")()
        except O._Timeout:
            raise
        except Exception:  # noqa: BLE001
            pass
    return counts[0]


def c18(X, family, repl, where, sizes):
    """family input at three sizes with the innermost atom (where='inner') or a token appended at the end (where='last') replaced by repl"""
    ws, firsts, kinds = [], [], []
    srcs = []
    for d in sizes:
        text = FAMILIES[family](d)
        if where == "inner":
            src = substitute_marker(text, repl)
        else:
            body = substitute_marker(text, "QQ")
            src = body.rstrip("\n") + " " + repl + "\n"
        srcs.append(src)
    v = None
    for d, src in zip(sizes, srcs):
        lim = 3000 * (len(src) + 50)
        try:
            w, n, kind = measure_work(X, src, limit=lim)
        except O._Timeout:
            v = {"kind": "work-exceeds-budget", "observed": f"size {d}: more than {lim} token operations", "expected": "linear work", "source": src[:120]}
            break
        if kind == "HANG":
            v = {"kind": "work-exceeds-budget", "observed": f"size {d}: wall-clock limit", "expected": "linear work", "source": src[:120]}
            break
        ws.append(w)
        kinds.append(kind)
    if v is None:
        g = growth_violation(ws)
        if g:
            v = {"kind": "superlinear-work", "observed": g, "expected": "W(4s)-W(2s) <= 2.5 (W(2s)-W(s)) + c"}
    if v is None:
        return None
    v.update({"family": family, "replacement": repl, "where": where})
    # is the growth confined to the diagnostic second pass of a rejected input?
    try:
        fw = [first_pass_work(X, src, limit=3000 * (len(src) + 50)) for src in srcs]
        rejected = O.run_parse(X, srcs[0], "exec")[0] in ("SyntaxError", "IndentationError")
        if rejected and growth_violation(fw) is None:
            v["feature"] = "diagnostic-second-pass"
            v["first_pass_work"] = fw
    except O._Timeout:
        pass
    return v


ORACLES.update({"c18": c18})


# ------------------------------------------------------------------ C17
def _plain(v):
    if hasattr(v, "_fields") and hasattr(v, "string"):
        return ("tok", v.string)
    if isinstance(v, (list, tuple)):
        return type(v).__name__, [_plain(x) for x in v]
    return v


def c17_same(gen, ref):
    """equality of normalised outcomes, except that where the reference has None (absent optional) the generated parser may hold any
    falsy value: pegen's convention is 'absent = falsy' (a failed one-or-more inside [...] leaves [])"""
    if ref is None:
        return gen is None or gen == ("list", []) or gen is False
    if isinstance(ref, (list, tuple)) and isinstance(gen, (list, tuple)) and type(ref) is type(gen) and len(ref) == len(gen):
        return all(c17_same(g, r) for g, r in zip(gen, ref))
    return gen == ref


def c17(X, grammar_data, w, repo=O.REPO_DEFAULT):
    """generate a parser for the grammar with the working tree's generator and compare it with the reference PEG interpreter on the token string w"""
    import os
    here = os.path.dirname(os.path.abspath(__file__))
    if os.path.dirname(here) not in sys.path:
        sys.path.insert(0, os.path.dirname(here))
    import importlib.util
    spec = importlib.util.spec_from_file_location("symx_pegref", os.path.join(here, "pegref.py"))
    pegref = importlib.util.module_from_spec(spec)
    spec.loader.exec_module(pegref)
    g = pegref.from_data(grammar_data)
    text = pegref.render(g)
    src = pegref.generate(text, repo)
    ns = {"__name__": "c17_generated"}
    exec(compile(src, "<generated>", "exec"), ns)
    cls = ns["GeneratedParser"]
    T = X.tokenize
    toks = []
    col = 0
    for s_ in w.split():
        typ = T.Token.NUMBER if s_.isdigit() else T.Token.NAME
        toks.append(T.TokenInfo(typ, s_, (1, col), (1, col + len(s_)), w + "\n"))
        col += len(s_) + 1
    toks.append(T.TokenInfo(T.Token.NEWLINE, "\n", (1, col), (1, col + 1), w + "\n"))
    toks.append(T.TokenInfo(T.Token.ENDMARKER, "", (2, 0), (2, 0), ""))
    p = cls(X.tokenizer.Tokenizer(iter(toks)))
    try:
        v = p.top()
        got = ("ok", _plain(v), int(p._mark())) if v else (("fail",) if int(p._mark()) == 0 else ("fail-without-reset", int(p._mark())))
    except SyntaxError:
        got = ("raise",)
    except Exception as e:  # noqa: BLE001
        got = ("EXC:" + type(e).__name__, str(e)[:80])
    ref = pegref.Interp(g, toks, T).run("top")
    rn = (ref[0],) + ((_plain(ref[1]), ref[2]) if ref[0] == "ok" else ())
    if not c17_same(got, rn):
        return {"kind": "generated-parser-differs-from-PEG-semantics", "observed": repr(got)[:200], "expected": repr(rn)[:200], "input": w,
                "grammar": text[len(pegref.HEADER):]}
    return None


ORACLES.update({"c17": c17})


# ------------------------------------------------------------------ C03: catastrophic backtracking of a tokenizer pattern
REGEX_CORPUS = ["x = 1\n", "a `b.*` g`c` @f`d`\n", "'s' \"d\" '''t\nu''' \"\"\"v\nw\"\"\"\n", "f'a{b!r:>{w}}c' f\"{d}\" f'''e\n{f}''' rf\"\"\"{g}\n\"\"\"\n", "p'/x' pf'{y}' pr\"z\"\n",
                "0x1f 0b1 0o7 1_0 1.5e-3j .5 1e5\n", "# c\n\tx \\\n  y\n", "$(ls -l) $[a] !(b) ![c] @(d) @$(e) ${f} $G\n", "'a\\\nb' 'c\n", "f'{x:{y}}' f'{{}}' f'{a}}'\n"]


def compiled_patterns(X, corpus=None):
    """the pattern strings the working tree's tokenizer compiles while tokenizing the corpus"""
    pats = []
    orig = X.tokenize._compile

    def rec(expr):
        pats.append(expr)
        return orig(expr)
    X.tokenize._compile = rec
    try:
        for t in corpus or REGEX_CORPUS:
            O.safe_tokens(X, t, 2.0)
    finally:
        X.tokenize._compile = orig
    return list(dict.fromkeys(pats))


def _match_steps(pattern, text, budget_s):
    """seconds one failing/succeeding match takes in a child process (None = killed after budget_s)"""
    import subprocess
    import time
    code = "import re,sys,json; p,t=json.load(sys.stdin); re.compile(p, re.UNICODE).match(t)"
    t0 = time.time()
    try:
        subprocess.run([sys.executable, "-c", code], input=json.dumps([pattern, text]), text=True, capture_output=True, timeout=budget_s)
    except subprocess.TimeoutExpired:
        return None
    return time.time() - t0


def c03_regex(X, pattern, prefix, unit, suffix, reps=64):
    """the tokenizer's own pattern on prefix + unit*reps + suffix: one match call must finish (exponential backtracking never does)"""
    # the pattern text is not stable across processes (the string-prefix alternation is built from a set): identify it up to permutation
    same = [p for p in compiled_patterns(X) if sorted(p) == sorted(pattern)]
    if not same:
        return None     # not a pattern of this tree's tokenizer (any more)
    pattern = same[0]
    base = _match_steps(pattern, prefix + suffix, 20.0) or 0.0
    text = prefix + unit * reps + suffix
    t = _match_steps(pattern, text, 20.0 + base)
    if t is None:
        return {"kind": "regex-exponential-backtracking", "observed": f"one match call on {len(text)} characters did not finish within 20 s",
                "expected": "every match call terminates in time polynomial in the line length", "pattern": pattern[:300], "input": text}
    return None


ORACLES.update({"c03_regex": c03_regex})


# ------------------------------------------------------------------ C09 with f-string features (known f-string deviations are keyed by them)
_c09_plain = O.c09


def c09(X, src):
    v = _c09_plain(X, src)
    if v is not None and ("f'" in src.lower() or 'f"' in src.lower() or "f'''" in src.lower()):
        feats = sorted(fstring_features(src))
        if feats:
            v["features"] = feats
    return v


ORACLES.update({"c09": c09})


def c07_sub_nested(X, pre, cmd, rest, post):
    """a subprocess macro in ANY position: pre + cmd + '!' + rest + post, where pre opens the bracket that holds the macro (possibly nested in
    other forms, e.g. '$(ls @$(') and post closes it and carries on (') -l)\\ny = 1').  Some call of the tree must receive exactly
    [cmd, rest.strip()], and everything else must parse as it does with a macro-free command in the same place."""
    if any(c in rest for c in "()[]{}'\"#\\`\n") or rest[:1] in ("=", "(", "["):
        return None
    src = f"{pre}{cmd}!{rest}{post}\n"
    tk, toks = O.run_tokens(X, src)
    if tk != "ok" or any(t.type == X.tokenize.Token.ERRORTOKEN for t in toks):
        return None
    k0, t0 = O.run_parse(X, f"{pre}{cmd} x{post}\n", "exec")
    if k0 != "ok":
        return None     # the surrounding text itself is not accepted: nothing to compare with
    k, t = O.run_parse(X, src, "exec")
    if k != "ok":
        return {"kind": "subproc-macro-rejected", "observed": [k, O.exc_sig(t) if isinstance(t, BaseException) else None], "expected": [cmd, rest.strip()], "source": src}
    want = [cmd, rest.strip()]

    def consts(c):
        return [a.value if isinstance(a, ast.Constant) else None for a in c.args]
    hits = [c for c in ast.walk(t) if isinstance(c, ast.Call) and consts(c) == want]
    if not hits:
        return {"kind": "subproc-macro-arguments-differ", "observed": sorted({repr(consts(c)) for c in ast.walk(t) if isinstance(c, ast.Call)})[:6], "expected": want, "source": src}

    def masked(tree, target):
        for c in ast.walk(tree):
            if isinstance(c, ast.Call) and consts(c) == target:
                c.args[:] = [ast.Constant(value="<args>")]
        return ast.dump(tree)
    if masked(t, want) != masked(t0, [cmd, "x"]):
        return {"kind": "code-around-subproc-macro-differs", "observed": masked(t, want)[:300], "expected": masked(t0, [cmd, "x"])[:300], "source": src}
    return None


ORACLES.update({"c07_sub_nested": c07_sub_nested})
