"""symx.load — load /repo's modules from the current working tree (DESIGN §1.4).

Two copies live side by side in the checking process:
  * `sym`  : source → ast → two semantics-preserving rewrites (`a in b` → __vin__(a,b), "<const>".join(x) →
             __vjoin__(const, x)) → exec.  `tokenize._compile` is replaced by the symbolic regex compiler and the
             module-global name `ast` of subheader/parser by a shim whose literal_eval understands proxies.
  * `real` : plain import of the unmodified files (used for per-path translator validation and for replay).
Nothing in /repo is written.
"""
from __future__ import annotations

import ast
import hashlib
import importlib
import io
import os
import sys
import textwrap
import types

from . import chars, core
from .chars import SymStr
from .core import EngineError

REPO = os.environ.get("VERIF_REPO", "/repo")
MODS = ("tokenize", "tokenizer", "subheader", "parser")


class _Rewriter(ast.NodeTransformer):
    def visit_Compare(self, node):
        self.generic_visit(node)
        if len(node.ops) == 1 and isinstance(node.ops[0], (ast.In, ast.NotIn)):
            call = ast.Call(func=ast.Name(id="__vin__", ctx=ast.Load()), args=[node.left, node.comparators[0]], keywords=[])
            if isinstance(node.ops[0], ast.NotIn):
                return ast.copy_location(ast.UnaryOp(op=ast.Not(), operand=call), node)
            return ast.copy_location(call, node)
        return node

    _STR_METHODS = {"startswith", "endswith", "find", "count", "replace", "index", "strip", "lstrip", "rstrip", "rfind"}

    def visit_Call(self, node):
        self.generic_visit(node)
        f = node.func
        if isinstance(f, ast.Attribute) and f.attr in self._STR_METHODS and node.args and not node.keywords \
                and not any(isinstance(a, ast.Starred) for a in node.args):
            # str methods reject proxy ARGUMENTS before a proxy can intercept: route through __vmeth__
            return ast.copy_location(
                ast.Call(func=ast.Name(id="__vmeth__", ctx=ast.Load()), args=[f.value, ast.Constant(f.attr), *node.args], keywords=[]), node)
        if (isinstance(f, ast.Attribute) and f.attr == "join" and isinstance(f.value, ast.Constant)
                and isinstance(f.value.value, str) and len(node.args) == 1 and not node.keywords):
            return ast.copy_location(
                ast.Call(func=ast.Name(id="__vjoin__", ctx=ast.Load()), args=[f.value, node.args[0]], keywords=[]), node)
        return node


class AstShim:
    """stands in for the module-global `ast` inside the loaded subheader/parser"""

    def __init__(self):
        self.__dict__["_real"] = ast

    def __getattr__(self, n):
        return getattr(ast, n)

    @staticmethod
    def literal_eval(x):
        return lit_eval(x)


_LE_CACHE: dict = {}


class CModuleShim:
    """stands in for a C extension module (unicodedata, ...) imported by the code under analysis: its functions cannot see through a
    proxy, so proxy arguments are concretised by fork (every value of the symbolic characters is explored) before the real call"""
    _PASS = frozenset({"functools", "itertools", "_functools", "builtins", "sys", "re", "_sre"})

    def __init__(self, mod):
        self.__dict__["_mod"] = mod

    @staticmethod
    def _c(a):
        return a.concrete() if isinstance(a, SymStr) else a

    def __getattr__(self, n):
        v = getattr(self._mod, n)
        if not callable(v) or isinstance(v, type):
            return v
        c = self._c

        def call(*a, **k):
            return v(*[c(x) for x in a], **{kk: c(x) for kk, x in k.items()})
        return call


def _shim_c_modules(ns):
    for k, v in list(ns.items()):
        if isinstance(v, types.ModuleType) and v.__name__ not in CModuleShim._PASS and not str(getattr(v, "__file__", "") or "").endswith(".py"):
            ns[k] = CModuleShim(v)


def _quiet_print(*a, **k):
    """verbose tracing of the code under analysis: output discarded (its arguments are still evaluated)"""
    return None


def lit_eval(x):
    if isinstance(x, str):
        return ast.literal_eval(x)
    h = getattr(type(x), "__lit_eval__", None)
    if h is not None:
        return h(x)
    if not isinstance(x, SymStr):
        return ast.literal_eval(x)
    ex = core.EX
    syms = [(i, c) for i, c in enumerate(x.e) if not isinstance(c, str)]
    # all but the last symbolic char are concretised by fork; the last is partitioned by literal_eval's behaviour
    elems = list(x.e)
    for i, c in syms[:-1]:
        elems[i] = chars.cvalue(c)
    pos, c = syms[-1]
    dom = sorted(ex.dom[c.var.get_id()])
    key = (tuple(e if isinstance(e, str) else None for e in elems), tuple(dom), id(c.xf))
    groups = _LE_CACHE.get(key)
    if groups is None:
        groups = {}
        for k in dom:
            ch = c.xf[k]
            elems[pos] = ch
            s = "".join(elems)
            try:
                v = ast.literal_eval(s)
            except Exception as err:  # noqa: BLE001
                gk = ("E", type(err).__name__, str(getattr(err, "msg", err)))
                groups.setdefault(gk, [[], err])[0].append(k)
                continue
            if isinstance(v, str) and v.count(ch) == 1:
                pre, post = v.split(ch)
                gk = ("T", pre, post)
                groups.setdefault(gk, [[], None])[0].append(k)
            else:
                gk = ("V", repr(v))
                groups.setdefault(gk, [[], v])[0].append(k)
        if len(_LE_CACHE) > 5000:
            _LE_CACHE.clear()
        _LE_CACHE[key] = groups
    keys = list(groups)
    gi = ex.choose(c.var, [frozenset(groups[k][0]) for k in keys])
    gk = keys[gi]
    if gk[0] == "E":
        err = groups[gk][1]
        if isinstance(err, SyntaxError):
            raise SyntaxError(err.msg, (err.filename, err.lineno, err.offset, err.text, err.end_lineno, err.end_offset))
        raise type(err)(*err.args)
    if gk[0] == "T":
        return SymStr(tuple(gk[1]) + (c,) + tuple(gk[2])).simp()
    return groups[gk][1]


def _src_digest(repo):
    h = hashlib.sha256()
    for m in MODS:
        with open(f"{repo}/peg_parser/{m}.py", "rb") as f:
            h.update(f.read())
    return h.hexdigest()


_CODE_CACHE: dict = {}


def _load_rewritten(repo, pkgname="peg_parser", only=MODS):
    saved = {k: v for k, v in sys.modules.items() if k == pkgname or k.startswith(pkgname + ".")}
    for k in saved:
        del sys.modules[k]
    ns = types.SimpleNamespace()
    try:
        pkg = types.ModuleType(pkgname)
        pkg.__path__ = [f"{repo}/peg_parser"]
        sys.modules[pkgname] = pkg
        for m in only:
            path = f"{repo}/peg_parser/{m}.py"
            with open(path, encoding="utf-8") as f:
                src = f.read()
            ck = (path, hashlib.sha256(src.encode()).hexdigest())
            code = _CODE_CACHE.get(ck)
            if code is None:
                tree = _Rewriter().visit(ast.parse(src))
                ast.fix_missing_locations(tree)
                code = _CODE_CACHE[ck] = compile(tree, path, "exec")
            mod = types.ModuleType(f"{pkgname}.{m}")
            mod.__file__ = path
            mod.__package__ = pkgname
            mod.__dict__["__vin__"] = chars.vin
            mod.__dict__["__vjoin__"] = chars.vjoin
            mod.__dict__["__vmeth__"] = chars.vmeth
            mod.__dict__["print"] = _quiet_print
            from . import filemodel
            mod.__dict__["open"] = filemodel.sym_open
            sys.modules[f"{pkgname}.{m}"] = mod
            setattr(pkg, m, mod)
            exec(code, mod.__dict__)
            _shim_c_modules(mod.__dict__)
            if m == "tokenize":
                mod._compile = chars.sym_compile
            if "ast" in mod.__dict__ and m in ("subheader", "parser"):
                mod.__dict__["ast"] = AstShim()
            setattr(ns, m, mod)
    finally:
        for k in [k for k in sys.modules if k == pkgname or k.startswith(pkgname + ".")]:
            del sys.modules[k]
        sys.modules.update(saved)
    return ns


def _load_real(repo):
    if repo not in sys.path:
        sys.path.insert(0, repo)
    for k in [k for k in sys.modules if k == "peg_parser" or k.startswith("peg_parser.")]:
        del sys.modules[k]
    importlib.invalidate_caches()
    ns = types.SimpleNamespace()
    for m in MODS:
        setattr(ns, m, importlib.import_module(f"peg_parser.{m}"))
    return ns


_REAL_STRINGIO = io.StringIO
_REAL_DEDENT = textwrap.dedent
_patched = False


def _patch_env():
    """process-wide wrappers that only differ from the originals when handed a proxy"""
    global _patched
    if _patched:
        return
    _patched = True

    class StringIO(_REAL_STRINGIO):
        def __new__(cls, initial_value="", newline="\n"):
            if isinstance(initial_value, SymStr):
                return chars.SymStringIO(initial_value, newline)
            return _REAL_STRINGIO.__new__(cls)

    io.StringIO = StringIO  # type: ignore

    def dedent(text):
        if isinstance(text, SymStr):
            text = text.concrete()
        elif hasattr(type(text), "concrete"):
            text = text.concrete()
        elif hasattr(type(text), "ev") and not isinstance(text, str):
            from .levelb import Opaque
            return Opaque(lambda m, t=text: _REAL_DEDENT(t.ev(m)))     # level B: source lines exist only once a model is chosen
        return _REAL_DEDENT(text)

    textwrap.dedent = dedent


class Repo:
    def __init__(self, repo=None, symbolic=True, real=True):
        repo = repo or REPO
        self.path = repo
        self.digest = _src_digest(repo)
        _patch_env()
        self.sym = _load_rewritten(repo) if symbolic else None
        self.real = _load_real(repo) if real else None


_REPO = None


def repo() -> Repo:
    global _REPO
    if _REPO is None:
        _REPO = Repo()
    return _REPO


def exec_generated(src: str, filename: str, symbolic=True):
    """exec a generated parser module; `from peg_parser.subheader import ...` resolves to the loaded (symbolic=True) or the
    unmodified (symbolic=False) runtime.  Returns the module namespace dict."""
    rp = repo()
    ns = rp.sym if symbolic else rp.real
    saved = {k: v for k, v in sys.modules.items() if k == "peg_parser" or k.startswith("peg_parser.")}
    for k in saved:
        del sys.modules[k]
    try:
        pkg = types.ModuleType("peg_parser")
        pkg.__path__ = [f"{rp.path}/peg_parser"]
        sys.modules["peg_parser"] = pkg
        for m in MODS:
            sys.modules[f"peg_parser.{m}"] = getattr(ns, m)
            setattr(pkg, m, getattr(ns, m))
        tree = ast.parse(src)
        if symbolic:
            tree = _Rewriter().visit(tree)
            ast.fix_missing_locations(tree)
        g = {"__name__": "symx_generated", "__vin__": chars.vin, "__vjoin__": chars.vjoin, "__vmeth__": chars.vmeth}
        exec(compile(tree, filename, "exec"), g)
        return g
    finally:
        for k in [k for k in sys.modules if k == "peg_parser" or k.startswith("peg_parser.")]:
            del sys.modules[k]
        sys.modules.update(saved)
