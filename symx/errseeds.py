"""symx.errseeds — error seeds in layout products: (multi-line construct) x (filler) x (error line), and eval-mode errors behind
leading white space.  The per-line caches and position arithmetic behind error reports depend on what PRECEDES the error."""

Q3 = "'" * 3
D3 = '"' * 3

# multi-line constructs that fill / bypass the token source's line cache in different ways
PREFIX_CONSTRUCTS = [
    "", "ok = 1\n", "s = " + Q3 + "a\nb\nc" + Q3 + "\n", "t = f" + D3 + "a\n{b} c\nd" + D3 + "\n", "u = (1,\n     2,\n\n     3)\n", "v = [\n  # c\n  1,\n]\n",
    "w = 1 + \\\n    2\n", "f!(a,\n   b c)\n", "g!(x,\n y\n)\n", "r = (m!(\n  $(ls -l)\n) if c else 0)\n", "with! ctx:\n    some raw\n    body\n",
    "with! c:\n    a\n\n    b\n\n", "$(echo a \\\n  b)\n", "![ls\n -l]\n", "def f():\n    " + Q3 + "doc\n    more\n    " + Q3 + "\n    return 1\n",
    "if a:\n\tb\n\tc = " + D3 + "x\ny" + D3 + "\n", "x = p'/tmp' / pf'{y}'\n", "# comment only\n\n\n", "d = {1:\n     2,\n     **e}\n", "echo hi > out.txt\n",
    "@(z).q!(raw\n text)\n", "k = `a.*` + g`b\\\n`\n",
]
FILLERS = ["", "\n", "y = 2\n", "\n\n# note\n"]
ERROR_LINES = ["x = = 1\n", "y = (1 +)\n", "a b\n", "def f(:\n    pass\n", "1 +\n", "if x\n    pass\n", "z = [1,\n  2 3]\n", "print(f'{a!}')\n", "$(ls ]\n", "q!(a]\n", "'s' b'b'\n", "x = 1_\n",
               "for x in: pass\n", "class A\n", "return = 1\n", "(a, b) += 1\n"]


def after_constructs():
    return [p + f + e for p in PREFIX_CONSTRUCTS for f in FILLERS for e in ERROR_LINES]


LEADS = ["", " ", "  ", "\t", "\n", "\n\n", "\n\n  ", " \t ", "\x0c", "# c\n", "\\\n"]
EVAL_ERRORS = ["(1 +* 2)", "foo(a,\n    b c)", "[x for x in]", "1 +", "a b", "f(**a, *b)", "x = 1", "(a\n b", "$(ls ]", "f!(a]", "'s' b'b'", "1_", "lambda: (yield", "{1: 2, 3}", "a if b"]


def eval_errors():
    """(text, 'eval') pairs: expression-mode errors behind every kind of leading white space / blank line / comment"""
    return [(l + e + t, "eval") for l in LEADS for e in EVAL_ERRORS for t in ("", "\n")]


# expression forms that span several physical lines; an error whose RANGE covers them needs every one of their lines in the line cache
SPAN_EXPRS = ["f!(x,\n y\n)", "m!(\n  $(ls -l)\n)", Q3 + "a\nb\nc" + Q3, "f" + D3 + "p\n{q} r\ns" + D3, "(1,\n\n 2)", "[1,\n # c\n 2]", "g(a,\n  b)", "$(echo a\n b)", "{1:\n 2}",
              "'a' \\\n 'b'", "x.y!(raw\n\n text)", "p'/a' / pf'''{b}\n'''", "`a.*`\n", "h(\n)"]
SPAN_CONTEXTS = ["(@ 1)\n", "[a, @ b]\n", "r = (@ if c)\n", "f(@ for x in y, 1)\n", "print(@ @)\n", "{@: 1, 2}\n", "(@\n  ) = 1\n", "x = (1 +\n  @ @\n )\n", "del (@)\n", "with (@ as 1): pass\n"]


def spanning_errors():
    return [c.replace("@", e) for c in SPAN_CONTEXTS for e in SPAN_EXPRS]


# valid Python: a multi-line construct as the LAST statement of an indented block, followed by a dedent - the tokenizer must come back to
# statement mode (INDENT/DEDENT processing) whatever mode the construct ended in
BS = chr(92)
BLOCK_CONSTRUCTS = [
    "f" + D3 + "{x + " + BS + "\n y}" + D3, "f'{x + " + BS + "\n y}'", "s = " + Q3 + "a\nb" + Q3, "t = f" + D3 + "a\n{b}\n" + D3, "u = (1,\n2)", "v = [1,\n  # c\n]", "w = 1 + " + BS + "\n  2",
    "w = 1 + " + BS + "\n" + BS + "\n  2", "x = 'a" + BS + "\nb'", "y = f'{a}' " + BS + "\n    f'{b}'", "z = {1:\n2}", "f" + D3 + "{\nx\n}" + D3, "f" + D3 + "{x:>" + BS + "\n3}" + D3, "f" + D3 + "{x!r:\n}" + D3,
    "g(" + Q3 + "a\n" + Q3 + ")", "rf" + D3 + BS + "\n{x}" + D3, "q = 1  # c " + BS, "pass;" + BS + "\npass",
]


def dedent_after():
    out = []
    for c in BLOCK_CONSTRUCTS:
        out.append("if a:\n    " + c + "\nz\n")
        out.append("def f():\n    if a:\n        " + c + "\n    z\nw\n")
        out.append("if a:\n\t" + c + "\nelse:\n\tz\n")
    return out


SPAN_EXPRS += ["a " + BS + "\n" + BS + "\n .b", "(1 " + BS + "\n" + BS + "\n" + BS + "\n)"]
