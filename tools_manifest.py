"""regenerate MANIFEST.json from the table below (run: ./vx py tools_manifest.py)"""
import json, os
HERE = os.path.dirname(os.path.abspath(__file__))
SYM = "symbolic execution of the real Python code with z3 (own replay-DFS engine; bounded, path-complete within the bound)"
TRUST = ("trusts: z3, the proxy layer (validated on every path by re-running the unmodified modules on the path's witness), "
         "representative-character classes / code-derived token alphabet, ")
CHECKS = {
 "C01": ("model_checking", "§2 C01",
   "Token kinds and inter-token gaps are solver variables; the real Tokenizer+XonshParser run on them; each accepting path is compared with ast.parse on "
   "its witness (all fields and positions) and every span term is proved by z3 to sit on the same token boundary for ALL gap values of the path class. "
   "Bounds: all streams over the Python part of the alphabet up to length 2 (quick) / 3 (thorough), seed statements with all gaps symbolic, one symbolic "
   "token or character per seed, symbolically chosen layout variants. Not a proof: programs outside these shapes are not covered.",
   TRUST + "CPython as an opaque per-path oracle (tight classes on accepting paths)", SYM + " + z3 span lifting; CPython differential per path"),
 "C02": ("model_checking", "§2 C02",
   "The accepted language restricted to the Python lexicon is explored symbolically (all streams up to length 2/3, every single-token and single-character "
   "substitution of seeds with the substituted element a solver variable, every proper prefix); every ACCEPTING path class is decided by ast.parse on its witness.",
   TRUST + "CPython as an opaque oracle on accepting paths", SYM + "; CPython verdict per accepting path"),
 "C03": ("model_checking", "§2 C03",
   "Path-complete symbolic execution of the real generate_tokens / Tokenizer / XonshParser on symbolic characters (all strings over R up to length 2 quick / 3 "
   "thorough; seeds with one symbolic character; every prefix) and on symbolic token streams (all streams over the code-derived alphabet up to length 2 / 3). "
   "The outcome class of each path is the verdict for its whole input class; bounded, not a proof. Plus z3 lemmas without length bound: every unbounded "
   "repetition of every pattern the tokenizer compiles is unambiguous (no catastrophic backtracking), and a concrete scan of every nesting depth.",
   TRUST + "step/wall budgets as the non-termination detector", SYM),
 "C04": ("model_checking", "§2 C04",
   "On every accepting path of the symbolic explorations (Python and xonsh kinds) the tree is walked by a reference shape/context walker derived from CPython's "
   "ASDL signatures and handed to compile(); tree shape is constant on a path.",
   TRUST + "compile() as an opaque oracle per accepting path", SYM + "; compile()/shape walker per accepting path"),
 "C08": ("model_checking", "§2 C08",
   "generate_tokens runs on symbolic characters through a symbolic regex matcher; on every finishing path the tiling predicate is evaluated on the symbolic token "
   "list (character equalities decided by z3 under the path condition). All strings up to length 2/3 (+newline), seeds with 1 (thorough: 2 adjacent) symbolic characters.",
   TRUST + "StringIO line splitting model", SYM),
 "C05": ("model_checking", "§2 C05",
   "Contexts are symbolic: p tokens before and s tokens after an expression hole are solver variables (p,s <= 1 quick, <= 2 thorough); the placeholder run of the real "
   "parser decides per path class whether the hole is an admissible Load position; for each admissible class and each construct of the documented table the construct "
   "run must equal the run on the written-out translation and the construct node must span exactly the inserted text. Seeds contribute every NAME position as a hole, "
   "optionally followed by one symbolic character; $NAME/${..} are checked as Store targets.",
   TRUST + "the documented translation table; written-out translations are parsed by this parser", SYM + "; three-way product (placeholder / construct / translation)"),
 "C06": ("model_checking", "§2 C06",
   "(A) command bodies with symbolic characters over the shell-word alphabet inside the four bracket forms (bodies of length <= 2/3 fully symbolic, seeds with 1-2 symbolic "
   "characters) are compared with an independent whitespace word-splitting model; (B) n <= 3/4 word tokens with symbolic kinds and symbolic gaps: z3 proves on every path "
   "class that neighbouring words share an argument exactly when their gap is 0.",
   TRUST + "the word model (whitespace split, quotes incl. multi-line triple quotes/brackets protect, an empty nested macro `$(cmd!)` is one piece; glued mixed words checked for count and span only)", SYM + " + z3 gap/adjacency proofs"),
 "C07": ("model_checking", "§2 C07",
   "Macro call arguments, subprocess-macro rests and with-macro blocks carry symbolic characters and run through the real tokenizer, raw-capture token source and parser; "
   "the captured string constants are compared with independent reference models (bracket/quote-aware comma splitter, strip, block dedenter) and the code around/after the "
   "macro must parse as without it.",
   TRUST + "reference models' domain (balanced brackets, complete strings, no '#'/backslash)", SYM + "; reference splitter/dedenter models"),
 "C09": ("model_checking", "§2 C09",
   "generate_tokens runs on symbolic characters; each path's witness is tokenized by CPython's tokenize and significant tokens must agree in text, coordinates and order; "
   "plus unbounded z3 regular-expression lemmas: the number/comment/whitespace sub-languages equal CPython's and extra prefixes/operators are the documented ones.",
   TRUST + "CPython's C tokenizer as an opaque per-path oracle", SYM + " + z3 regex-language equality lemmas (sequence theory, no length bound)"),
 "C10": ("model_checking", "§2 C10",
   "f-string shapes (prefix x quote x literal x field x literal, several per line, multi-line) with one symbolic character, and fully symbolic f-string bodies of length 2/3, "
   "run through the real tokenizer's f-string mode machine and the parser; tokens and trees of each path witness are compared with CPython 3.12. Known f-string defects are "
   "keyed by feature sets computed from CPython's own token stream.",
   TRUST + "CPython as opaque per-path oracle", SYM + "; CPython differential per path"),
 "C12": ("model_checking", "§2 C12",
   "Product execution of both entry points on the same symbolic file content: the loaded parse_string and the loaded parse_file run on a model of text-mode open() (explicit "
   "encoding or a SYMBOLIC locale encoding in {utf-8, ascii}; universal-newline translation; readline); every disagreement is replayed with a real file in child interpreters "
   "under LC_ALL=C, LC_ALL=C + UTF-8 mode and C.utf8; a witness sample is pushed through all three environments.",
   TRUST + "the open() model (symx/filemodel.py); Latin-1 locale not installed", SYM + " with a symbolic locale encoding; child-interpreter replay"),
 "C13": ("model_checking", "§2 C13",
   "One-step frame condition on every path of symbolic explorations (strings up to length 2/3, seeds with a symbolic character incl. macros, path literals, f-strings, failing "
   "inputs): a fingerprint of everything reachable from module/class globals of peg_parser.* is unchanged, a probe parse is unaffected, earlier trees are unaltered. Histories "
   "and an 8-thread pool are replayed concretely (sampled; interleavings are not explored symbolically).",
   TRUST + "no shared write => schedule independence; lru_cache of _compile exempt", SYM + "; frame-condition (inductive step over histories)"),
 "C16": ("translation_validation", "§2 C16",
   "Both generation steps are re-run from the working tree into a scratch directory; each shipped rule method is compared with its regenerated counterpart as normalised AST and "
   "by symbolic co-execution with uninterpreted sub-rules (solver-chosen truthiness of every sub-rule result; traces and action terms must coincide on every path); keyword tables "
   "and decorators compared; generation repeated under 4 PYTHONHASHSEED settings (sampled).",
   "trusts: z3, the recording mock of the parser runtime; loops in hand-written-style generated code are unrolled up to 40 trace events", "per-rule symbolic co-execution (z3 Bool per sub-rule result) + normalised-AST translation validation"),
 "C17": ("model_checking", "§2 C17",
   "For each grammar of a pool (every operator in nesting positions up to depth 2, direct/indirect left recursion, memo flags, helper sharing, plus seeded random grammars) a parser "
   "is generated by the working tree's generator and run on symbolic token strings (all lengths up to 4/5 over 5 token kinds) together with an independent PEG interpreter on the same "
   "proxies; success, end position and action value must agree on every joint path. Grammars are sampled; inputs are solver-decided.",
   TRUST + "reference PEG interpreter (symx/pegref.py); indirect left recursion only when entered through the leader", SYM + "; differential against an independent PEG interpreter"),
 "C18": ("other", "§2 C18",
   "Sufficient condition for linearity on 47 size-parameterised families at sizes s,2s,4s: one token of the stream is symbolic (innermost position or appended), the solver "
   "partitions the alphabet into the classes the parser distinguishes (valid and invalid variants), and for every class W(4s)-W(2s) <= 2.5 (W(2s)-W(s)) + c where W counts "
   "Tokenizer getnext/peek/reset. Growth beyond the largest size is an extrapolation and not claimed.",
   TRUST + "work counter = token-source operations", SYM + " with a counting token source; growth inequality per path class"),
 "C14": ("model_checking", "§2 C14",
   "Three-way product execution: parse(A), parse(B), parse(A+B) on shared solver variables (A = statement form with one symbolic character or a symbolic token row; B = statement "
   "form or symbolic token row); on every joint path where A and B are complete sequences body(A+B) must be body(A) ++ line-shifted body(B).",
   TRUST + "'complete sequence' = accepted alone and newline-terminated", SYM + "; product of three runs"),
 "C15": ("model_checking", "§2 C15",
   "Product execution on shared symbolic token streams: default options, verbose=True (print discarded) and py_version=(3,m) with m a solver variable in [8,13]; outcomes must "
   "coincide or be a SyntaxError naming a required version above m (monotonicity proved by z3 on m); all seeds additionally run the full concrete option grid.",
   TRUST + "print replaced by a no-op", SYM + " with a symbolic minor version; option-product"),
 "C11": ("model_checking", "§2 C11",
   "On every rejecting path of the symbolic explorations the raised SyntaxError/IndentationError is checked (message, file name, line range, column inside the line, "
   "end >= start, text begins with the line); at token level columns are z3 terms and the inequalities are proved for every spacing of the path class.",
   TRUST + "text comparisons evaluated on the path witness", SYM + " + z3-proved column inequalities"),
}
def main():
    checks = []
    for pid, (cat, ref, text, note, tech) in sorted(CHECKS.items()):
        c = pid.lower()
        checks.append({
            "property_id": pid,
            "quick_cmd": f"./vx check {c} --tier quick",
            "thorough_cmd": f"./vx check {c} --tier thorough",
            "evidence_file": f"/verif/evidence/{pid}.json",
            "replay_cmd_template": "/venv/bin/python /verif/symx/replay.py {path}",
            "engine": "symx",
            "level_claimed": {"category": cat, "text": text, "design_ref": ref},
            "level_note": note,
            "technique": tech,
        })
    props = [json.loads(l)["id"] for l in open(os.path.join(HERE, "properties.jsonl"))]
    na = [{"property_id": p, "reason": NA.get(p, "check not built yet in this round (planned, see DESIGN.md §2)")} for p in props if p not in CHECKS]
    m = {
        "version": 1,
        "setup_cmd": "./vx setup",
        "hooks": {"guard": "XONSH_PARSER_VERIF", "enable": "none needed: the engine loads /repo's sources itself (AST rewrite at load time); no hook commits",
                  "baseline_off_cmd": "cd /repo && /venv/bin/python -m pytest -ra -q -p no:cacheprovider --timeout=900 --continue-on-collection-errors",
                  "source_commits": [], "add_only": True},
        "engines": [{"name": "symx", "path": "/verif/symx", "serves_properties": sorted(CHECKS),
                     "kind_free_text": "replay-DFS symbolic executor for Python over z3 (proxies for characters, token kinds, columns; symbolic regex matcher)"}],
        "checks": checks,
        "not_applicable": na,
        "notes": "exit 0 held / 1 VIOLATION / 3 engine error or inconclusive (never reported as success). Thorough tier: every exploration is capped at "
                 "VERIF_THOROUGH_CAP seconds (default 300; 18 checks take about 6 h on 16 cores); a capped exploration is recorded as exhaustive:false. "
                 "VERIF_REPO / VERIF_OUT point the checks at a scratch copy of the repository (tools_seeded.py --copy); unset, they examine /repo.",
    }
    json.dump(m, open(os.path.join(HERE, "MANIFEST.json"), "w"), indent=1)
NA = {}
if __name__ == "__main__":
    main()
