"""regenerate MANIFEST.json from the table below (run: ./vx py tools_manifest.py)"""
import json, os
HERE = os.path.dirname(os.path.abspath(__file__))
CHECKS = {
 "C03": ("model_checking", "§2 C03",
   "Path-complete symbolic execution (own replay-DFS engine, z3 deciding every branch) of the real generate_tokens / Tokenizer / XonshParser on "
   "symbolic characters (all strings over R up to length 2 quick / 3 thorough; seeds with one symbolic character; every prefix) and on symbolic token "
   "streams (all streams over the code-derived alphabet up to length 2 / 3). The outcome class of each path is the verdict for its whole input class; "
   "bounded, not a proof: longer inputs are covered only through the seeded holes.",
   "trusts: z3, the proxy layer (validated on every path by re-running the unmodified modules on the path's witness), representative-character classes, "
   "step/wall budgets as the non-termination detector",
   "symbolic execution of the real Python code with z3 (bounded, path-complete)"),
}
def main():
    checks = []
    for pid, (cat, ref, text, note, tech) in sorted(CHECKS.items()):
        c = pid.lower()
        checks.append({
            "property_id": pid,
            "quick_cmd": f"./vx check {c} --tier quick",
            "thorough_cmd": f"./vx check {c} --tier thorough",
            "evidence_file": f"/verif/evidence/{pid}.json",
            "replay_cmd_template": "/venv/bin/python /verif/symx/replay.py {path}",
            "engine": "symx",
            "level_claimed": {"category": cat, "text": text, "design_ref": ref},
            "level_note": note,
            "technique": tech,
        })
    props = [json.loads(l)["id"] for l in open(os.path.join(HERE, "properties.jsonl"))]
    na = [{"property_id": p, "reason": NA.get(p, "check not built yet in this round (planned, see DESIGN.md §2)")} for p in props if p not in CHECKS]
    m = {
        "version": 1,
        "setup_cmd": "./vx setup",
        "hooks": {"guard": "XONSH_PARSER_VERIF", "enable": "none needed: the engine loads /repo's sources itself (AST rewrite at load time); no hook commits",
                  "baseline_off_cmd": "cd /repo && /venv/bin/python -m pytest -ra -q -p no:cacheprovider --timeout=900 --continue-on-collection-errors",
                  "source_commits": [], "add_only": True},
        "engines": [{"name": "symx", "path": "/verif/symx", "serves_properties": sorted(CHECKS),
                     "kind_free_text": "replay-DFS symbolic executor for Python over z3 (proxies for characters, token kinds, columns; symbolic regex matcher)"}],
        "checks": checks,
        "not_applicable": na,
        "notes": "exit 0 held / 1 VIOLATION / 3 engine error or inconclusive (never reported as success)",
    }
    json.dump(m, open(os.path.join(HERE, "MANIFEST.json"), "w"), indent=1)
NA = {}
if __name__ == "__main__":
    main()
