"""Apply a seeded change to /repo, run the checks against it, undo it.  usage: ./vx py tools_seeded.py <seeded/dir> [checks...] [--tier quick|thorough]
Confirms first that the demo fails with the change and passes without it and that the repo's test suite still passes with it."""
import json
import os
import subprocess
import sys
import time

VERIF = os.path.dirname(os.path.abspath(__file__))


def sh(cmd, **kw):
    return subprocess.run(cmd, shell=True, capture_output=True, text=True, **kw)


def main():
    d = os.path.abspath(sys.argv[1].rstrip("/"))
    tier = "quick"
    args = [a for a in sys.argv[2:]]
    if "--tier" in args:
        tier = args[args.index("--tier") + 1]
        args = [a for a in args if a not in ("--tier", tier)]
    no_suite = "--no-suite" in args
    copy = "--copy" in args       # examine a scratch worktree of /repo (under /tmp) instead of /repo itself: /repo stays untouched
    args = [a for a in args if a not in ("--no-suite", "--copy")]
    if copy:
        return main_copy(os.path.abspath(sys.argv[1].rstrip("/")), args, tier, no_suite)
    meta_p = os.path.join(d, "meta.json")
    meta = json.load(open(meta_p)) if os.path.exists(meta_p) else {}
    checks = args or [meta.get("property", "").lower()]
    patch = os.path.join(d, "patch.diff")
    demo = os.path.join(d, "demo.py")
    assert sh("git -C /repo status --porcelain").stdout.strip() == "", "/repo is not clean"
    res = {"dir": d, "tier": tier, "checks": {}}
    base = sh(f"cd /repo && /venv/bin/python {demo}", timeout=300)
    res["demo_unchanged_rc"] = base.returncode
    a = sh(f"git -C /repo apply {patch}")
    if a.returncode != 0:
        print("patch does not apply:", a.stderr)
        sys.exit(2)
    try:
        m = sh(f"cd /repo && /venv/bin/python {demo}", timeout=300)
        res["demo_changed_rc"] = m.returncode
        if not no_suite:
            t = sh("cd /repo && /venv/bin/python -m pytest -q -p no:cacheprovider --timeout=900 2>&1 | tail -1", timeout=1800)
            res["suite"] = t.stdout.strip()
        for c in checks:
            t0 = time.time()
            r = sh(f"cd {VERIF} && ./vx check {c} --tier {tier}", timeout=7200)
            viol = [ln for ln in r.stdout.splitlines() if ln.startswith("VIOLATION")]
            res["checks"][c] = {"rc": r.returncode, "violations": viol[:3], "detail": [ln.strip()[:300] for ln in r.stdout.splitlines() if ln.startswith("   ")][:3],
                                "wall": round(time.time() - t0, 1), "tail": r.stdout.strip().splitlines()[-1][:200] if r.stdout.strip() else r.stderr[-200:]}
    finally:
        sh("git -C /repo checkout -- .")
        sh(f"cd {VERIF} && git checkout -- evidence 2>/dev/null; rm -rf {VERIF}/replays/*")
    print(json.dumps(res, indent=1))


def main_copy(d, checks, tier, no_suite):
    import tempfile
    patch = os.path.join(d, "patch.diff")
    demo = os.path.join(d, "demo.py")
    wt = tempfile.mkdtemp(prefix="seedcopy_", dir="/tmp")
    os.rmdir(wt)
    out = tempfile.mkdtemp(prefix="seedout_", dir="/tmp")
    res = {"dir": d, "tier": tier, "checks": {}, "copy": wt}
    meta_p = os.path.join(d, "meta.json")
    base = (json.load(open(meta_p)).get("base_commit") if os.path.exists(meta_p) else None) or "HEAD"   # a change written against an older tree
    res["base"] = base
    assert sh(f"git -C /repo worktree add --detach {wt} {base} -q").returncode == 0
    try:
        res["demo_unchanged_rc"] = sh(f"cd {wt} && /venv/bin/python {demo}", timeout=300).returncode
        a = sh(f"git -C {wt} apply {patch}")
        if a.returncode != 0:
            print("patch does not apply:", a.stderr)
            sys.exit(2)
        res["demo_changed_rc"] = sh(f"cd {wt} && /venv/bin/python {demo}", timeout=300).returncode
        if not no_suite:
            res["suite"] = sh(f"cd {wt} && /venv/bin/python -m pytest -q -p no:cacheprovider --timeout=900 2>&1 | tail -1", timeout=1800).stdout.strip()
        for c in checks:
            t0 = time.time()
            r = sh(f"cd {VERIF} && VERIF_REPO={wt} VERIF_OUT={out} ./vx check {c} --tier {tier}", timeout=7200)
            viol = [ln for ln in r.stdout.splitlines() if ln.startswith("VIOLATION")]
            res["checks"][c] = {"rc": r.returncode, "violations": viol[:3], "detail": [ln.strip()[:300] for ln in r.stdout.splitlines() if ln.startswith("   ")][:3],
                                "wall": round(time.time() - t0, 1), "tail": r.stdout.strip().splitlines()[-1][:200] if r.stdout.strip() else r.stderr[-200:]}
    finally:
        sh(f"git -C /repo worktree remove --force {wt}; git -C /repo worktree prune; rm -rf {out}")
    print(json.dumps(res, indent=1))


if __name__ == "__main__":
    main()
