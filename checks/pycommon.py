"""shared explorations of the Python-language properties C01 / C02 / C04 / C11 (DESIGN §2): level B full streams over the
Python lexicon (or all of Sigma), level B token holes on seeds, level A character/layout holes on seeds."""
from symx import chars, harness, levelb, lifting, seeds
from symx.load import repo
from checks.c03 import hole_pairs, holes_textfn

LAYOUTS = ["", " ", "\t", "\x0c", "  ", " \\\n ", " # c\n", "\n"]


def b_full(chk, oracles_, n_max, python_only=True, modes=("exec", "eval"), lift=False, vac=("ok", "SyntaxError")):
    sig = levelb.sigma()
    allowed = frozenset(levelb.python_lexicon(sig)) if python_only else None
    for n in range(1, n_max + 1):
        for mode in modes:
            chk.run(f"B-full {mode} N={n}{' py-lexicon' if python_only else ''}",
                    harness.B_harness(lambda ex, n=n: [levelb.sym_slots(ex, n, allowed=allowed)], mode=mode, path_oracles=oracles_,
                                      symbolic_gaps=True, extra=lifting.c01_extra if lift else None),
                    f"all token streams of length {n} over {'the Python part of ' if python_only else ''}Sigma "
                    f"({len(allowed) if allowed else len(sig)} kinds), symbolic gaps, mode={mode}", vacuity=vac)


def seed_rows(texts):
    out = []
    for t in texts:
        r = levelb.rows_from_text(t)
        if r is not None:
            out.append((t, r[0], r[1]))
    return out


def b_holes(chk, oracles_, texts, per_seed, python_only=True, lift=False, wall=None, name="B-holes k=1", vac=("ok", "SyntaxError"), symbolic_gaps=True, extra=None, insert=False):
    """one symbolic token at a chosen position of a seed token stream; symbolic gaps on every row"""
    sig = levelb.sigma()
    allowed = frozenset(levelb.python_lexicon(sig)) if python_only else None
    sr = seed_rows(texts)
    pairs = []
    for si, (t, ind, rows) in enumerate(sr):
        pos = [(r, i) for r in range(len(rows)) for i in range(len(rows[r]) + (1 if insert else 0))]
        if per_seed and len(pos) > per_seed:
            pos = chk.rng.sample(pos, per_seed)
        pairs += [(si, r, i) for r, i in pos]

    def rowsfn(ex):
        k = harness.choose_index(ex, "pair", len(pairs))
        si, r, i = pairs[k]
        t, ind, rows = sr[si]
        rows2 = [list(row) for row in rows]
        if insert:
            rows2[r].insert(i, levelb.Slot(var=ex.fd("hk", len(sig), allowed), sig=sig))
        else:
            rows2[r][i] = levelb.Slot(var=ex.fd("hk", len(sig), allowed), sig=sig)
        return {"rows": rows2, "indents": ind}
    chk.extra.setdefault("token_hole_positions", 0)
    chk.extra["token_hole_positions"] += len(pairs)
    if not pairs:
        return
    chk.run(name, harness.B_harness(rowsfn, path_oracles=oracles_, symbolic_gaps=symbolic_gaps, extra=extra or (lifting.c01_extra if lift else None)),
            f"{len(pairs)} (seed, token position) pairs over {len(sr)} seed statements: that token symbolic over "
            f"{'the Python part of ' if python_only else ''}Sigma, inter-token gaps {'symbolic' if symbolic_gaps else 'one space'}", wall=wall, vacuity=vac)


def b_seeds_k0(chk, oracles_, texts, lift=True, wall=None, vac=("ok",)):
    """seed token streams with every gap symbolic (no symbolic token): proves spans for all spacings of each seed"""
    sr = seed_rows(texts)

    def rowsfn(ex):
        k = harness.choose_index(ex, "seed", len(sr))
        t, ind, rows = sr[k]
        return {"rows": rows, "indents": ind}
    chk.extra["layout_lifted_seeds"] = len(sr)
    chk.run("B-seeds all-gaps-symbolic", harness.B_harness(rowsfn, path_oracles=oracles_, symbolic_gaps=True, extra=lifting.c01_extra if lift else None),
            f"{len(sr)} seed statements as token streams with every inter-token gap a solver variable (>= 0)", wall=wall, vacuity=vac)


def a_holes(chk, oracles_, texts, per_text, wall=None, maxlen=160, allowed=None, name="A-holes k=1", vac=("ok", "SyntaxError"), insert=False):
    pairs = hole_pairs(chk, texts, per_text, maxlen)
    chk.extra.setdefault("char_hole_positions", 0)
    chk.extra["char_hole_positions"] += len(pairs)
    if not pairs:
        return

    def textfn(ex):
        i = harness.choose_index(ex, "pair", len(pairs))
        s, p = pairs[i]
        return harness.text_with_holes(ex, s, [p], 1, allowed=allowed, insert=insert)
    chk.run(name, harness.A_harness(textfn, path_oracles=oracles_),
            f"{len(pairs)} (seed, position) pairs with one symbolic character", wall=wall, vacuity=vac)


def a_layouts(chk, oracles_, texts, per_text, wall=None):
    """layout holes: at a token gap of a seed insert a symbolically chosen layout string (tab, form feed, continuation, comment, CRLF...)"""
    X = repo().real
    T = X.tokenize.Token
    cases = []
    for t in texts:
        from symx.oracles import safe_tokens
        toks = safe_tokens(X, t)
        if toks is None:
            continue
        toks = [k for k in toks if k.type not in (T.NEWLINE, T.NL, T.ENDMARKER, T.INDENT, T.DEDENT, T.WS, T.COMMENT)]
        offs = []
        lines = t.splitlines(keepends=True)
        starts = [0]
        for ln in lines:
            starts.append(starts[-1] + len(ln))
        for k in toks[1:]:
            if k.start[0] - 1 < len(starts):
                offs.append((starts[k.start[0] - 1] + k.start[1], k.start[1] == 0 or lines[k.start[0] - 1][:k.start[1]].strip() == ""))
        if per_text and len(offs) > per_text:
            offs = chk.rng.sample(offs, per_text)
        cases += [(t, o, lead) for o, lead in offs]
    variants = ["crlf", "nofinal"] + LAYOUTS

    def textfn(ex):
        i = harness.choose_index(ex, "case", len(cases))
        t, o, lead = cases[i]
        v = harness.choose_index(ex, "layout", len(variants))
        lay = variants[v]
        if lay == "crlf":
            return t.replace("\n", "\r\n")
        if lay == "nofinal":
            return t.rstrip("\n")
        if lead and lay not in ("",):
            return t  # leading position: indentation is significant, keep
        # whitespace already there? insert after it
        return t[:o] + lay + t[o:]
    chk.extra["layout_cases"] = len(cases) * len(variants)
    if not cases:
        return
    chk.run("A-layout holes", harness.A_harness(textfn, path_oracles=oracles_),
            f"{len(cases)} (seed, token gap) pairs x {len(variants)} layout variants chosen by a symbolic index "
            "(CRLF, no final newline, tab, form feed, double space, backslash continuation, comment+newline, newline)", wall=wall,
            vacuity=("ok",))


def k0_texts(chk, oracles_, texts, name, wall=None, modes=("exec",), vac=("ok",), tokens_only=False):
    """concrete texts pushed through the same harness (chosen by a symbolic index so that they are sharded and counted like paths)"""
    texts = list(dict.fromkeys(texts))
    cases = [(t, m) for t in texts for m in modes]

    def textfn(ex):
        return cases[harness.choose_index(ex, "text", len(cases))]
    chk.extra[name.replace(" ", "_") + "_texts"] = len(cases)
    chk.run(name, harness.A_harness(textfn, path_oracles=oracles_, do_tokens=tokens_only, do_parse=not tokens_only) if tokens_only else harness.A_harness(textfn, path_oracles=oracles_),
            f"{len(cases)} texts", wall=wall, vacuity=vac)


INDENTS = ["", "  ", "    ", "      ", "\t", " \t", "        ", "\x0c  "]
BODIES = ["if x:", "y", "else:", "# c", ""]
CORE_OPTS = [(i, b) for i in ("", "  ", "    ", "\t", "\t\t") for b in ("if x:", "y")]
RICH_OPTS = [(i, b) for i in INDENTS for b in BODIES]
# column arithmetic of leading whitespace: form feed resets the column, a tab rounds it up to a multiple of 8 (round 5: R5_C01_B)
WS_OPTS = [(i, b) for i in ("", "  ", "\x0c  ", "\x0c", " \x0c  ", "\t", "  \t", "        ") for b in ("if x:", "y")]


def indent_skeleton(chk, oracles_, nlines, opts, wall=None, tokens_only=False, label="core"):
    """every program of nlines lines, each line = an indentation + a body (both chosen through symbolic indices): explores the
    tokenizer's indentation stack (INDENT/DEDENT/NL decisions, tabs, inconsistent dedents, reuse of closed columns) against CPython"""
    total = len(opts) ** nlines

    def textfn(ex):
        lines = []
        for j in range(nlines):
            k = harness.choose_index(ex, f"l{j}", len(opts))
            ind, body = opts[k]
            lines.append(ind + body + "\n")
        return "".join(lines)
    chk.extra[f"indent_skeleton_{label}_{nlines}"] = total
    chk.run(f"A indentation skeleton ({label}) {nlines} lines", harness.A_harness(textfn, path_oracles=oracles_, do_tokens=tokens_only, do_parse=not tokens_only),
            f"all {total} programs of {nlines} lines over {len(opts)} (indentation, body) options", wall=wall, vacuity=("ok",))


def token_deletions(texts, per_text=0, rng=None):
    """every text obtained by deleting one token of a seed (the third single-token mutation besides substitution and insertion)"""
    from symx.oracles import safe_tokens
    X = repo().real
    T = X.tokenize.Token
    out = []
    for t in texts:
        toks = safe_tokens(X, t)
        if toks is None:
            continue
        lines = t.splitlines(keepends=True)
        starts = [0]
        for ln in lines:
            starts.append(starts[-1] + len(ln))
        spans = []
        for k in toks:
            if k.type in (T.NEWLINE, T.NL, T.ENDMARKER, T.INDENT, T.DEDENT, T.WS, T.COMMENT) or k.start[0] != k.end[0] or k.start[0] > len(lines):
                continue
            a = starts[k.start[0] - 1] + k.start[1]
            spans.append((a, a + len(k.string)))
        if per_text and rng is not None and len(spans) > per_text:
            spans = rng.sample(spans, per_text)
        for a, b in spans:
            out.append(t[:a] + t[b:])
    return list(dict.fromkeys(out))


def relayout_multiline(texts, limit=None):
    """valid re-layouts of seeds: inside brackets a line break (+ indentation, sometimes a comment or blank line) after every
    comma and opening bracket.  Gives multi-line expressions, calls, dict/list displays and parameter lists."""
    from symx.oracles import safe_tokens
    X = repo().real
    T = X.tokenize.Token
    out = []
    for n, t in enumerate(texts):
        toks = safe_tokens(X, t)
        if toks is None:
            continue
        lines = t.splitlines(keepends=True)
        starts = [0]
        for ln in lines:
            starts.append(starts[-1] + len(ln))
        depth = 0
        cuts = []
        ok = True
        for k in toks:
            if k.start[0] != k.end[0] and k.type not in (T.NEWLINE, T.NL):
                ok = False      # keep it simple: no multi-line tokens in the source seed
                break
            if k.type == T.OP:
                if k.string and k.string[-1] in "([{":
                    depth += 1
                    cuts.append((starts[k.end[0] - 1] + k.end[1], depth))
                elif k.string in ")]}":
                    depth -= 1
                elif k.string == "," and depth > 0:
                    cuts.append((starts[k.end[0] - 1] + k.end[1], depth))
            if k.type in (T.FSTRING_START,):
                ok = False
                break
        if not ok or not cuts:
            continue
        s = t
        for j, (off, d) in enumerate(sorted(cuts, reverse=True)):
            extra = ["", "  # c", "\n"][(n + j) % 3] if (n + j) % 4 == 0 else ""
            s = s[:off] + extra + "\n" + "  " * d + s[off:].lstrip(" ")
        out.append(s)
        if limit and len(out) >= limit:
            break
    return list(dict.fromkeys(out))
