"""C13 — parsing is a pure function: deterministic, history-free and thread-safe (DESIGN §2 C13)."""
from symx import chars, harness, levela, levelb, oracles, oracles2, seeds
from symx.chars import SymStr
from symx.check import Check, collect_functions
from symx.load import repo
from checks.c03 import hole_pairs

POOL = ["x = 1\n", "f!(a b, c)\n", "with! ctx:\n    body\nz\n", "p'/tmp' / pf'{x}'\n", "f'{a!r:>{w}}' f'{b}'\n", "$(ls -l) + !(pwd)\n", "x y\n", "f!(a, [b)\n", "with! a:\n",
        "'''unterminated\n", "(\n", "x = `a.*`\n", "$(echo! raw text)\n", "a?\n", "match x:\n    case 1: pass\n", "def f[T](): pass\n", "x = 'a' b'b'\n", "print(f'{x')\n"]
_BASE = {}


def frame_harness(textfn, mode="exec"):
    """frame condition on every path: neither the loaded (symbolically executed) modules nor the unmodified ones change module/class level state"""
    def harness_(ex):
        rp = repo()
        if "sym" not in _BASE:
            _BASE["sym"] = oracles2.module_state(rp.sym)
            _BASE["real"] = oracles2.module_state(rp.real)
        t = textfn(ex)
        rec = {"outcome": "?", "validated": 0, "viol": []}
        k, p = levela.sym_parse(t, mode)
        rec["outcome"] = k
        m = ex.get_model()
        w = t.ev(m) if isinstance(t, SymStr) else t
        rec["w"] = w
        d = oracles2.state_diff(_BASE["sym"], oracles2.module_state(rp.sym))
        rec["symassert"] = 1
        X = rp.real
        b = POOL[len(w) % len(POOL)]
        o1 = oracles.outcome_obs(*oracles.run_parse(X, b, "exec"))
        oa = oracles.outcome_obs(*oracles.run_parse(X, w, mode))
        o2 = oracles.outcome_obs(*oracles.run_parse(X, b, "exec"))
        rec["validated"] += 3
        d2 = oracles2.state_diff(_BASE["real"], oracles2.module_state(X))
        if d or d2 or o1 != o2:
            v = oracles2.c13(X, [(b, "exec"), (w, mode), (b, "exec")])
            if v is not None:
                rec["viol"].append({"oracle": "c13", "args": [[[b, "exec"], [w, mode], [b, "exec"]]], "kwargs": {}, "v": v})
            else:
                rec.setdefault("inconclusive", []).append({"what": "frame condition failed symbolically but the history replays clean", "w": w, "changed": (d or d2)[:4]})
        return rec
    return harness_


def main():
    chk = Check("C13", "model_checking",
                "one-step frame condition, checked on every path of symbolic explorations (all strings up to length L, seeds with a symbolic character, macro / "
                "path-literal / f-string / failing inputs): after the real code ran on the path's whole input class, a fingerprint of every object reachable "
                "from the module and class globals of peg_parser.* is unchanged, a fixed probe parse gives the same result before and after, and earlier trees are "
                "unaltered. No shared write => results cannot depend on history or schedule. Histories and thread pools are additionally replayed concretely")
    repo()
    chk.assumptions += ["the lru_cache of tokenize._compile is exempt (keyed by the full pattern string)",
                        "thread interleavings themselves are not explored symbolically: the claim is 'no shared write => schedule independent'; the thread pool run is a sampled sweep"]
    harness.oracles.ORACLES.update(oracles2.ORACLES)
    collect_functions(chk, lambda: oracles.run_parse(repo().real, "with! c:\n  x\nf!(a)\np'/x'\n", "exec"))
    L = 2 if chk.quick else 3
    for l in range(1, L + 1):
        chk.run(f"frame condition A-full L={l}", frame_harness(lambda ex, l=l: chars.sym_text(ex, "c", l)), f"all strings over R of length {l}", vacuity=("ok", "SyntaxError"))
    py, xs, lits = seeds.all_seeds()
    texts = POOL + (seeds.sample(chk.rng, xs, 20) + seeds.sample(chk.rng, py, 10) if chk.quick else xs + py + [t for t in lits if len(t) < 100])
    pairs = hole_pairs(chk, texts, 3 if chk.quick else 0, 120)

    def tf(ex):
        s, p = pairs[harness.choose_index(ex, "pair", len(pairs))]
        return harness.text_with_holes(ex, s, [p], 1)
    chk.run("frame condition A-holes k=1", frame_harness(tf), f"{len(pairs)} (seed, position) pairs incl. macros, path literals, f-strings and failing inputs",
            wall=150 if chk.quick else 1800, vacuity=("ok", "SyntaxError"))
    # concrete history / thread replays on the real code
    X = repo().real
    hist = [(s, "exec") for s in POOL] + [(s, "eval") for s in ("a + b", "$HOME", "f!(x)", "1 +")]
    chk.rng.shuffle(hist)
    v = oracles2.c13(X, hist + hist[::-1])
    chk.validated += 2 * len(hist)
    if v is not None:
        chk.add_candidate({"oracle": "c13", "args": [[list(h) for h in hist + hist[::-1]]], "kwargs": {}, "v": v})
    v = oracles2.c13_threads(X, hist, 8, 2 if chk.quick else 6)
    if v is not None:
        chk.add_candidate({"oracle": "c13_threads", "args": [[list(h) for h in hist]], "kwargs": {}, "v": v})
    chk.extra["history_length"] = 2 * len(hist)
    chk.extra["thread_pool"] = {"threads": 8, "rounds": 2 if chk.quick else 6, "inputs": len(hist)}
    chk.finish()


if __name__ == "__main__":
    main()
