"""C01 — pure-Python sources parse to exactly CPython's AST (DESIGN §2 C01)."""
from symx import seeds
from symx.check import Check, collect_functions
from symx.load import repo
from checks import pycommon


def main():
    chk = Check("C01", "model_checking",
                "symbolic token streams (kinds and inter-token gaps are solver variables) through the real Tokenizer+XonshParser; on every "
                "accepting path the tree is compared with ast.parse on the path witness (all fields, all positions) and every span term is "
                "proved by z3 to sit at the same token boundary for ALL gap values of the path class (span lifting); seeds with one symbolic "
                "token / one symbolic character / symbolically chosen layout variants extend the reach to long programs")
    repo()
    chk.assumptions += [
        "CPython (ast.parse) is an opaque oracle run on one witness per path; on accepting paths every token was inspected, so members of a "
        "path class differ only in the spelling of open-class tokens (identifiers, literals) which are representatives of Sigma",
        "level B stream invariant (established by C08/C09 at level A); unrealizable streams are dropped",
        "domain: f-strings, '@(' digraph, BOM/NUL, nesting > 50 excluded as the property states",
    ]
    chk.stubs += ["ast.literal_eval(proxy) -> concretise", "token .line -> opaque value rendered from the model"]
    collect_functions(chk, lambda: repo().real.parser.XonshParser.parse_string("def f(a, b=1, *c, d, **e):\n    return [x for x in a if x] + b.c[1:2]\n", mode="exec"))
    py, xs, lits = seeds.all_seeds()
    oracles_ = ("c01",)
    pycommon.b_full(chk, oracles_, 2 if chk.quick else 3, python_only=True, lift=True)
    ref = seeds.grammar_programs("reference", 8 if chk.quick else 20, chk.seed)
    chk.extra["reference_grammar_programs"] = len(ref)
    pycommon.k0_texts(chk, oracles_, ref, "reference-grammar derivations k=0", wall=150 if chk.quick else 900)
    from symx import errseeds
    cp = seeds.concat_product(True, 200 if chk.quick else 3000, chk.rng) + seeds.literal_product() + errseeds.dedent_after()
    pycommon.k0_texts(chk, oracles_, cp, "string concatenation product k=0", wall=150 if chk.quick else 900)
    ep = seeds.expr_product()
    pycommon.k0_texts(chk, oracles_, ep, "expression kinds x positions k=0", wall=150 if chk.quick else 900)
    pycommon.indent_skeleton(chk, oracles_, 4 if chk.quick else 6, pycommon.CORE_OPTS, wall=120 if chk.quick else 1500)
    pycommon.indent_skeleton(chk, oracles_, 2 if chk.quick else 3, pycommon.RICH_OPTS, wall=120 if chk.quick else 1500, label="rich")
    pycommon.indent_skeleton(chk, oracles_, 3, pycommon.WS_OPTS, wall=120 if chk.quick else 600, label="whitespace")
    if chk.quick:
        pycommon.b_seeds_k0(chk, oracles_, py, lift=True, wall=100)
        pycommon.b_holes(chk, oracles_, seeds.sample(chk.rng, py, 60), 2, lift=True, wall=120)
        pycommon.a_layouts(chk, oracles_, py, 2, wall=120)
        pycommon.a_holes(chk, oracles_, seeds.sample(chk.rng, py, 40), 3, wall=100)
        pycommon.b_holes(chk, oracles_, seeds.sample(chk.rng, py, 40), 2, wall=100, insert=True, name="B-holes insert k=1")
    else:
        pycommon.b_seeds_k0(chk, oracles_, py, lift=True, wall=900)
        pycommon.b_holes(chk, oracles_, py, 0, lift=True, wall=2400)
        pycommon.a_layouts(chk, oracles_, py, 0, wall=1500)
        pycommon.a_holes(chk, oracles_, py, 0, wall=2400)
        pycommon.b_holes(chk, oracles_, py, 0, wall=2400, insert=True, name="B-holes insert k=1")
        pycommon.a_holes(chk, oracles_, py, 0, wall=2400, insert=True, name="A-holes insert k=1")
    chk.finish()


if __name__ == "__main__":
    main()
