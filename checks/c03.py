"""C03 — totality: every input terminates with a tree or SyntaxError/TokenError (DESIGN §2 C03)."""
from symx import chars, harness, levelb, seeds
from symx.check import Check, collect_functions
from symx.load import repo


def hole_pairs(chk, texts, per_text, maxlen=160):
    pairs = []
    for s in texts:
        if not s or len(s) > maxlen:
            continue
        pos = list(range(len(s)))
        if per_text and len(pos) > per_text:
            pos = sorted(chk.rng.sample(pos, per_text))
        pairs += [(s, p) for p in pos]
    return pairs


def regex_ambiguity(chk):
    """z3 lemmas (no length bound): no unbounded repetition in a pattern the tokenizer compiles is ambiguous in the two ways that make a
    failing match explore exponentially many decompositions (two alternatives of the body overlap / one iteration equals several).
    An ambiguous repetition is pumped concretely; only a match call that does not finish is a violation."""
    from symx import oracles2, relemmas
    X = repo().real
    pats = oracles2.compiled_patterns(X)
    chk.extra["tokenizer_patterns"] = len(pats)
    nrep = 0
    for pat in pats:
        try:
            entries = relemmas.ambiguity(pat)
        except Exception as e:  # noqa: BLE001
            chk.lemma(f"repetitions of {pat[:40]!r} unambiguous", "unknown", repr(e)[:200])
            continue
        for e in entries:
            nrep += 1
            chk.queries += e["queries"]
            chk.solver_s += e.get("solver_s", 0.0)
            if e["status"] == "unambiguous":
                continue
            if e["status"] in ("unknown", "unsupported"):
                chk.lemma(f"repetition {e['node'][:60]} of {pat[:30]!r} unambiguous", "unknown", e.get("detail") or "solver timeout")
                continue
            hit = None
            for suffix in ("\n", "", "\x00\n", "!\n"):
                v = oracles2.c03_regex(X, pat, e["prefix"], e["witness"], suffix, 40)
                if v is not None:
                    hit = (suffix, v)
                    break
            if hit:
                chk.add_candidate({"oracle": "c03_regex", "args": [pat, e["prefix"], e["witness"], hit[0], 40], "kwargs": {}, "v": hit[1]})
            chk.lemmas.append({"name": f"repetition {e['node'][:60]} of {pat[:30]!r}", "status": "ambiguous-" + ("and-pumpable" if hit else "but-harmless"),
                               "detail": {"witness": e["witness"], "prefix": e["prefix"]}, "solver_s": e.get("solver_s")})
    chk.lemma(f"all {nrep} unbounded repetitions of the {len(pats)} tokenizer patterns examined for ambiguity", "valid", None)
    chk.functions |= {"tokenize.py: every pattern handed to _compile (PseudoToken, end patterns, f-string patterns)"}


def holes_textfn(pairs, mode_of=None, insert=False):
    def textfn(ex):
        i = harness.choose_index(ex, "pair", len(pairs))
        s, p = pairs[i]
        return harness.text_with_holes(ex, s, [p], 1, insert=insert)
    return textfn


def cut_textfn(texts):
    cuts = [(s, i) for s in texts for i in range(1, len(s))]

    def textfn(ex):
        i = harness.choose_index(ex, "cut", len(cuts))
        s, p = cuts[i]
        return s[:p]
    return textfn, len(cuts)


def main():
    chk = Check("C03", "model_checking",
                "path-complete symbolic execution of generate_tokens / Tokenizer / XonshParser.parse_string on symbolic characters "
                "(all strings over the representative alphabet R up to length L; seeds with one symbolic character) and on symbolic "
                "token streams (all streams over the code-derived alphabet Sigma up to length N); z3 decides every branch; the outcome "
                "class of a path (tree / SyntaxError / TokenError / other exception / step budget) is the verdict for its whole input class")
    repo()
    L = 2 if chk.quick else 3
    N = 2 if chk.quick else 3
    chk.assumptions += [
        "characters outside the representative set R behave like the representative of their class (R = ASCII + é É ٣ € \\xa0 \\u2028 \\x85 U+1D400 BOM)",
        "io.StringIO(text).readline is modelled as splitting at '\\n' (its default newline='\\n' semantics)",
        "level B: token streams satisfy the stream invariant; unrealizable streams (rendered text does not re-tokenize to the stream) are dropped",
        "non-termination is detected as exceeding a step budget (regex match calls) on the symbolic run and a wall-clock limit on the concrete replay",
    ]
    chk.stubs += ["tokenize._compile -> symbolic regex matcher over re._parser trees", "ast.literal_eval(proxy) -> partition by literal_eval's behaviour",
                  "io.StringIO(proxy) -> line splitter", "textwrap.dedent(proxy) -> concretise"]

    collect_functions(chk, lambda: repo().real.parser.XonshParser.parse_string("f(x)[1] + $(ls -l) if a else 'b'\n", mode="exec"))

    for l in range(1, L + 1):
        chk.run(f"A-full tokens L={l}", harness.A_harness(lambda ex, l=l: chars.sym_text(ex, "c", l), do_tokens=True, do_parse=False,
                                                         path_oracles=("c03",)),
                f"all strings over R of length {l} through generate_tokens", vacuity=("ok", "TokenError"))
        for mode in ("exec", "eval"):
            chk.run(f"A-full parse {mode} L={l}", harness.A_harness(lambda ex, l=l: chars.sym_text(ex, "c", l), mode=mode, path_oracles=("c03",)),
                    f"all strings over R of length {l} through parse_string(mode={mode})", vacuity=("ok", "SyntaxError"))
    for n in range(1, N + 1):
        chk.run(f"B-full exec N={n}", harness.B_harness(lambda ex, n=n: [levelb.sym_slots(ex, n)], path_oracles=("c03",), symbolic_gaps=True),
                f"all token streams over Sigma ({len(levelb.sigma())} kinds) of length {n} + NEWLINE + ENDMARKER, symbolic gaps",
                vacuity=("ok", "SyntaxError"))

    regex_ambiguity(chk)
    py, xs, lits = seeds.all_seeds()
    xg = seeds.grammar_programs("xonsh", 3 if chk.quick else 8, chk.seed)
    chk.extra["xonsh_grammar_programs"] = len(xg)

    def tfx(ex):
        return xg[harness.choose_index(ex, "g", len(xg))]
    if xg:
        chk.run("xonsh.gram derivations k=0", harness.A_harness(tfx, path_oracles=("c03",)), f"{len(xg)} programs derived from every alternative of the working tree's grammar",
                wall=150 if chk.quick else 900, vacuity=("ok",))
    from symx import errseeds
    ac = errseeds.after_constructs() + errseeds.spanning_errors() + seeds.expr_product()
    cp = seeds.concat_product(False, 200 if chk.quick else 3000, chk.rng) + seeds.literal_product() + (ac if not chk.quick else seeds.sample(chk.rng, ac, 2500))

    def tfc(ex):
        return cp[harness.choose_index(ex, "c", len(cp))]
    chk.run("string concatenation product (all kinds) k=0", harness.A_harness(tfc, path_oracles=("c03",)), f"{len(cp)} implicit concatenations of string-like atoms",
            wall=150 if chk.quick else 900, vacuity=("ok", "SyntaxError"))
    from checks.c11 import LAYOUT_ERR_SEEDS
    texts = LAYOUT_ERR_SEEDS + py + xs + [t for t in lits if len(t) < 120]
    if chk.quick:
        texts = LAYOUT_ERR_SEEDS + seeds.sample(chk.rng, py, 25) + seeds.sample(chk.rng, xs, 30) + seeds.sample(chk.rng, lits, 25)
        pairs = hole_pairs(chk, texts, 4, 100)
    else:
        pairs = hole_pairs(chk, texts, 0, 160)
    chk.extra["hole_positions"] = len(pairs)
    chk.run("A-holes k=1", harness.A_harness(holes_textfn(pairs), path_oracles=("c03",)),
            f"{len(pairs)} (seed, position) pairs with one symbolic character substituted; seeds = repo test data + test literals + xonsh forms",
            wall=150 if chk.quick else 1500, vacuity=("ok", "SyntaxError"))
    FSEEDS = ["f'{x!r}'\n", "f'{x!s:>5}'\n", 'print(f"{a[0]}")\n', 'f"""{\nx}"""\n', "f'{x:{w}}'\n", "f'{x}' 'y'\n", "a?.b?\n", "x = p'a' f'{b}'\n"]
    ipairs = hole_pairs(chk, FSEEDS + (seeds.sample(chk.rng, xs, 15) + seeds.sample(chk.rng, py, 10) if chk.quick else xs + py), 4 if chk.quick else 0, 100)
    chk.run("A-holes insert k=1", harness.A_harness(holes_textfn(ipairs, insert=True), path_oracles=("c03",)),
            f"{len(ipairs)} (seed, position) pairs with one symbolic character INSERTED (f-string conversions/specs, help chains, xonsh and Python seeds)",
            wall=150 if chk.quick else 1500, vacuity=("ok", "SyntaxError"))
    # the recursion clause: nesting families far beyond the interpreter's recursion head-room (concrete, through the oracle)
    from symx import oracles as _o
    # EVERY depth up to 64 (the recursion guard has to hold in both passes of the parser: a narrow band of depths just under the limit
    # reaches the diagnostic pass), then 100 and 300; valid and invalid cores; run under the head-room of a top-level caller
    closers = {"(": ")", "[": "]", "{": "}", "f(": ")", "$(": ")", "a[": "]", "@(": ")", "f!(": ")", "{1: ": "}", "[*": "]", "(lambda: ": ")"}
    fams = ["(", "[", "{", "f(", "$(", "a[", "@(", "{1: ", "[*", "(lambda: ", "lambda: ", "not ", "-", "a if b else ", "await ", "x = "]
    cores = ["1", "1 2", "x = ", ""]
    ncases = [(fam, d, core, mode) for fam in fams for d in list(range(1, 65)) + [100, 300] for core in cores
              for mode in (("exec", "eval") if fam in ("(", "[", "f(", "a[") else ("exec",))]
    if chk.quick:
        ncases = [c for c in ncases if c[1] <= 48 or c[1] in (100, 300)]

    def nest_harness(ex):
        fam, d, core, mode = ncases[harness.choose_index(ex, "n", len(ncases))]
        src = fam * d + core + closers.get(fam, "") * d + ("\n" if mode == "exec" else "")
        rec = {"outcome": "?", "validated": 1, "viol": [], "w": [fam, d, core, mode]}
        v = _o.c03(repo().real, src, mode)
        rec["outcome"] = "ok" if v is None else "viol"
        if v is not None:
            rec["viol"].append({"oracle": "c03", "args": [src, mode], "kwargs": {}, "v": v})
        return rec
    chk.run("nesting families x every depth (concrete, through the oracle)", nest_harness, f"{len(ncases)} (family, depth, core, mode) cases: {len(fams)} families, depths 1..{48 if chk.quick else 64}, 100, 300",
            wall=200 if chk.quick else 900, vacuity=("ok",))
    chk.extra["nesting_families"] = f"{len(fams)} families x every depth"
    cut_src = FSEEDS + seeds.sample(chk.rng, xs + py, 40 if chk.quick else 400)
    cut_src = [s for s in cut_src if len(s) < 120]
    tf, ncuts = cut_textfn(cut_src)
    chk.run("A-prefixes", harness.A_harness(tf, path_oracles=("c03",)), f"every proper prefix of {len(cut_src)} seeds ({ncuts} cuts, chosen by a symbolic index)",
            wall=100 if chk.quick else 900, vacuity=("SyntaxError",))
    chk.finish()


if __name__ == "__main__":
    main()
