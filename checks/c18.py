"""C18 — parsing work grows at most linearly with input size and nesting depth (bounded form; DESIGN §2 C18)."""
import collections

from symx import core, harness, levelb, oracles, oracles2, seeds
from symx.check import Check, collect_functions
from symx.load import repo

LIMIT_PER_TOKEN = 3000


def counting_parse(stream, mode="exec"):
    """drive the loaded parser with a counting Tokenizer subclass; returns (kind, work)"""
    from symx.levela import classify
    R = repo().sym
    counts = [0]
    ntok = sum(len(r) for r in stream.rows) + 2 * len(stream.rows) + 2
    limit = LIMIT_PER_TOKEN * ntok

    class CT(R.tokenizer.Tokenizer):
        def getnext(self):
            counts[0] += 1
            return super().getnext()

        def peek(self):
            counts[0] += 1
            if counts[0] > limit:
                raise core.Budget()
            return super().peek()

        def reset(self, i):
            counts[0] += 1
            return super().reset(i)
    tz = CT(stream.tokens())
    stream.tokenizer = tz
    try:
        p = R.parser.XonshParser(tz)
        tree = p.parse(mode if mode == "eval" else "file")
        return ("ok" if tree is not None else "None"), counts[0]
    except core.Budget:
        return "OVERBUDGET", counts[0]
    except RecursionError:
        return "RecursionError", counts[0]
    except Exception as e:  # noqa: BLE001
        return classify(e, R), counts[0]


def family_rows(fam, d):
    text = oracles2.FAMILIES[fam](d)
    r = levelb.rows_from_text(text)
    if r is None:
        return None
    ind, rows = r
    pos = None
    for i, row in enumerate(rows):
        for j, sl in enumerate(row):
            if sl.kind == ("NAME", "QQ"):
                pos = (i, j)
    return ind, rows, pos


def main():
    chk = Check("C18", "other",
                "sufficient condition for linear work, checked symbolically on size-parameterised families: for every family (nested brackets, calls, lambdas, "
                "dicts, comprehensions, subprocesses, blocks, match patterns, operator chains, argument/statement lists ...) at sizes s, 2s, 4s the token stream "
                "carries ONE symbolic token (at the innermost position, or appended at the end); the real parser runs with a counting token source; the solver "
                "partitions the token alphabet into the classes the parser distinguishes (valid and invalid variants, the latter trigger the diagnostic second "
                "pass), and for every class the work increments may at most double: W(4s)-W(2s) <= 2.5 (W(2s)-W(s)) + c. Growth beyond the largest size is not claimed")
    repo()
    harness.oracles.ORACLES.update(oracles2.ORACLES)
    chk.assumptions += ["work = Tokenizer.getnext + peek + reset calls; budget 3000 operations per token (exceeding it is reported)",
                        "families and sizes are enumerated; the single varied token is solver-decided; the asymptotic statement beyond 4s is an extrapolation and not claimed"]
    collect_functions(chk, lambda: oracles2.measure_work(repo().real, "f(a, [b for b in c], {1: (2, 3)})\n"))
    sizes = (3, 6, 12) if chk.quick else (8, 16, 32)
    fams = list(oracles2.FAMILIES)
    if chk.quick:
        fams = [f for f in fams]  # all families, small sizes
    sig = levelb.sigma()
    cases = []
    for fam in fams:
        for d in sizes:
            fr = family_rows(fam, d)
            if fr is None or fr[2] is None:
                continue
            for where in ("inner", "last"):
                cases.append((fam, d, where))
    chk.extra["families"] = len(fams)
    chk.extra["sizes"] = list(sizes)
    table = collections.defaultdict(lambda: collections.defaultdict(dict))   # (fam, where) -> size -> kind index -> (W, outcome)

    def harness_(ex):
        i = harness.choose_index(ex, "case", len(cases))
        fam, d, where = cases[i]
        ind, rows, pos = family_rows(fam, d)
        rows = [list(r) for r in rows]
        var = ex.fd("hk", len(sig))
        slot = levelb.Slot(var=var, sig=sig)
        if where == "inner":
            rows[pos[0]][pos[1]] = slot
        else:
            rows[-1] = rows[-1] + [slot]
        st = levelb.Stream(ex, rows, symbolic_gaps=False, indents=ind)
        kind, w = counting_parse(st)
        dom = sorted(ex.dom[var.get_id()])
        m = ex.get_model()
        return {"outcome": kind, "validated": 0, "viol": [], "w": st.render(m)[:80], "c18": (fam, d, where, dom, w, kind)}

    old = chk.on_record

    def collect(r):
        old(r)
        c = r.get("c18")
        if c:
            fam, d, where, dom, w, kind = c
            for k in dom:
                table[(fam, where)][d][k] = (w, kind)
    chk.on_record = collect
    chk.run("B families x sizes x one symbolic token", harness_, f"{len(fams)} families x sizes {sizes} x (innermost | appended) symbolic token over Sigma ({len(sig)} kinds)",
            wall=400 if chk.quick else 3000, vacuity=("ok", "SyntaxError"), path_wall=120.0)
    chk.on_record = old
    X = repo().real
    # large concrete sizes (k=0 and one error variant): growth that only shows at depth > 60
    big = (24, 48, 96) if chk.quick else (64, 128, 256)
    for fam in fams:
        for where, repl in (("inner", "QQ"), ("inner", "1 1"), ("last", ")")):
            v = oracles2.c18(X, fam, repl, where, list(big))
            chk.validated += 1
            if v is not None:
                chk.add_candidate({"oracle": "c18", "args": [fam, repl, where, list(big)], "kwargs": {}, "v": v})
    chk.extra["large_sizes"] = list(big)
    checked = 0
    cands = 0
    for (fam, where), by_size in table.items():
        if not all(d in by_size for d in sizes):
            continue
        for k in range(len(sig)):
            if not all(k in by_size[d] for d in sizes):
                continue
            ws = [by_size[d][k][0] for d in sizes]
            kinds = [by_size[d][k][1] for d in sizes]
            checked += 1
            bad = "OVERBUDGET" in kinds or oracles2.growth_violation(ws)
            if bad and cands < 40:
                cands += 1
                repl = sig[k][1]
                v = oracles2.c18(X, fam, repl, where, list(sizes))
                chk.validated += 1
                if v is not None:
                    chk.add_candidate({"oracle": "c18", "args": [fam, repl, where, list(sizes)], "kwargs": {}, "v": v})
                # a symbolic-level excess that the text-level measurement does not confirm (unrealizable stream) is dropped
    chk.extra["growth_conditions_checked"] = checked
    chk.extra["explanation"] = chk.description
    chk.finish()


if __name__ == "__main__":
    main()
