"""C10 — f-strings (tokens and trees) agree with CPython (DESIGN §2 C10)."""
import itertools

from symx import chars, harness, oracles, oracles2, seeds
from symx.check import Check, collect_functions
from symx.load import repo
from checks.c03 import hole_pairs


NESTED = ["f'{\'\'\'a\nb\'\'\'}'\n", 'f"{\'\'\'a\nb\'\'\'!r:>9}"\n', "x = f'{f\'\'\'a\n{y}b\'\'\'}'\n", "f'{\"x\"}'\n", "f'{f\"{y}\"}'\n", 'f\'\'\'{"""a\nb"""}\'\'\'\n',
          "u'a' f'b'\n", "u'a' f'b{c}'\n", "(u'a'\n 'b'\n f'c {d!r:>4} e')\n", "'a' f'b{c}' u'd'\n", "b = u'a' 'b'\n", "f'{a}' u'b'\n", "f\'\'\'a\n{x}b\'\'\'\n", "f\'\'\'{x:>\n}\'\'\'\n",
          "f'abc\\\n{x}'\n", "f'{x!r}' f'{y!s}' f'{z!a}'\n", "f'{x!r:>{3}}'\n"]


BS = chr(92)


def shapes(rng, quick):
    prefixes = ["f", "F", "rf", "fR", "Rf"] if not quick else ["f", "rf", "F"]
    quotes = ["'", '"', "'''", '"""']
    lits = ["", "a", "a b", "é", "it", "#", "a:b", "100%", "x=1", BS, "a" + BS, BS + "N", BS + "d+", BS + BS]    # incl. a backslash right before / after a field
    fields = ["{a}", "{a!r}", "{a:>10}", "{a!s:^5}", "{a.b[0]}", "{a+b}", "{ a }", "{f(a, b)}", "{a:#x}", "{a:%Y}", "{a:,}", "{(a, b)}", "{a if b else c}", "{a['k']}" ]
    out = []
    for p, q in itertools.product(prefixes, quotes):
        for l1, fl, l2 in itertools.product(lits, fields, lits):
            if "'" in fl and q in ("'", "'''"):
                continue
            out.append(f"{p}{q}{l1}{fl}{l2}{q}\n")
    ctx = ["x = {}\n", "print({}, {{1: 2}})\n", "y = {} + {}\n", "[{}, {}]\n", "z = ({}\n  {})\n", "{} 'tail'\n", "'head' {}\n", "f({}) if {} else {{}}\n"]
    simple = ["f'{a}'", 'f"{b!r}"', "f'''{c:>3} d'''", "f'x{a}y'", "rf'{a}\\d'"]
    for c in ctx:
        n = c.count("{}")
        for combo in itertools.product(simple, repeat=n):
            out.append(c.format(*combo))
    multi = ["f'''a\n{b}\nc'''\n", "f'''{\na\n}'''\n", "f'{a}' \\\n  f'{b}'\n", "x = (f'{a}'\n     f'{b}')\n", "f'''{a:\n>3}'''\n", "f'{f\"{a}\"}'\n", "f'{f\"{a!r:>{3}}\"}'\n"]
    out += multi
    out += NESTED
    rng.shuffle(out)
    return out


def main():
    chk = Check("C10", "model_checking",
                "f-string shapes (prefix x quote x literal x field x literal, several f-strings per line, multi-line forms) with one symbolic character in "
                "literal parts / specs / field expressions are pushed through the real tokenizer (symbolic regex matcher, f-string mode machine) and parser; "
                "each path's witness is tokenized and parsed by CPython 3.12 and tokens (FSTRING_START/MIDDLE/END, expression tokens, coordinates) and trees "
                "(JoinedStr/FormattedValue/Constant values and spans) must be equal")
    repo()
    chk.assumptions += ["CPython's tokenizer/parser are opaque oracles run on one witness per path",
                        "known f-string defects are keyed by feature sets computed from CPython's own token stream; a violation on an f-string without "
                        "these features is reported"]
    collect_functions(chk, lambda: repo().real.parser.XonshParser.parse_string("x = f'a{b!r:>{w}}c' f'''d\n{e}'''\n", mode="exec"))
    sh = shapes(chk.rng, chk.quick)
    o = ("c10",)
    harness.oracles.ORACLES.update(oracles2.ORACLES)
    # k=0: every shape concretely (chosen through a symbolic index so that the run is sharded and counted uniformly)
    from symx import errseeds
    sample = list(dict.fromkeys(NESTED + [t for t in errseeds.dedent_after() if "f'" in t or 'f"' in t] + (sh[:600] if chk.quick else sh)))

    def tf0(ex):
        return sample[harness.choose_index(ex, "shape", len(sample))]
    chk.run("shapes k=0", harness.A_harness(tf0, path_oracles=o), f"{len(sample)} f-string shapes", wall=120 if chk.quick else 1200, vacuity=("ok",))
    cp = [t for t in seeds.concat_product(True, 100 if chk.quick else 2000, chk.rng) if any(m in t.lower() for m in ("f'", 'f"'))]

    def tfc(ex):
        return cp[harness.choose_index(ex, "cp", len(cp))]
    chk.run("implicit concatenations with f-strings k=0", harness.A_harness(tfc, path_oracles=o), f"{len(cp)} concatenations of string-like atoms (all prefix cases, multi-line atoms) that involve an f-string",
            wall=120 if chk.quick else 900, vacuity=("ok",))
    hs = NESTED + (sh[:120] if chk.quick else sh[:1500])
    pairs = hole_pairs(chk, hs, 3 if chk.quick else 0, 80)
    chk.extra["hole_positions"] = len(pairs)

    def tf1(ex):
        s, p = pairs[harness.choose_index(ex, "pair", len(pairs))]
        return harness.text_with_holes(ex, s, [p], 1)
    chk.run("A-holes k=1", harness.A_harness(tf1, path_oracles=o), f"{len(pairs)} (shape, position) pairs with one symbolic character",
            wall=120 if chk.quick else 2400, vacuity=("ok",))
    L = 2 if chk.quick else 3
    for q in ("'", '"""'):
        chk.run(f"A-full inside f{q} L={L}", harness.A_harness(lambda ex, q=q: "f" + q + chars.sym_text(ex, "c", L) + q + "\n", path_oracles=o),
                f"all strings over R of length {L} as the body of f{q}...{q}", wall=150 if chk.quick else 1800, vacuity=("ok",))
    chk.finish()


if __name__ == "__main__":
    main()
