"""C11 — syntax errors are well-formed and point into the offending source (DESIGN §2 C11)."""
from symx import chars, harness, levelb, lifting, seeds
from symx.check import Check, collect_functions
from symx.load import repo
from checks import pycommon
from checks.c03 import cut_textfn

LAYOUT_ERR_SEEDS = [
    'x = f"""a\n{b} c\nd""" +\n', 'msg = f"""head\n  {name} tail\n  more {value!}\n"""\n', 'f"""a\n{b} c\nd\ne""" $\n', "x = f\'\'\'a\n{b}\nc\'\'\' 1\n",
    "d = {a: 1, (b\n        + cccccccccccc)}\n", "cfg = {\n    'name': 1,\n    f(x,\n      some_long_argument_name),\n}\n", "f(a,\n  b\n  c)\n", "x = [1,\n     2\n     3]\n",
    'for x in """a\nb"""', 'y = 1\nwhile """first\nsecond\nthird"""', 'if cond:\n    pass\nelif """p\nq"""', "if x:\n\t\ty = 1\n\tz = 2\n",
    "def f():\n\tif a:\n\t\t\treturn 1\n\t\treturn 2\n", "if x:\n \ty = 1\n  z\n", "x = [1,\n\'\'\'a\nb\'\'\' 2]", "(a,\n # c\n b) += 1\n", "(a,\n\n b) += 1\n", 'x = (b"a"\n     # note\n     "b")\n',
    "x = (1,\n\n  2 3)\n", "if a:\n    pass\n\n  b\n", "def f(:\n  pass\n", "x = [\n  # c\n  1 2\n]\n", "'''a\nb''' = 1\n", "x = 1 +\n", "f(a for a in b, c)\n",
    "\n\n\nx y\n", "x y", "# c\nx = = 1\n", "class A:\npass\n", "if a:\n  b\n c\n", "match x:\n ", "try:\n  a\n", "f(**a, *b)\n", "x = 'a' b'b'\n",
    "(a, b) += 1\n", "a = 1 = yield\n", "def f(a=1, b): pass\n", "lambda a=1, b: 0\n", "f!(a]\n", "f!(a, [b)\n", "$(ls ]\n", "with! a:\n", "x = $\n",
    "print 'a'\n", "x = 1_\n", "a.1\n", "for x in: pass\n", "import\n", "from a import (\n  b c)\n", "x = {1: 2, 3}\n", "[x for x in (\n1 2)]\n",
    "async x\n", "a +* b\n", "x = (\n'''a\nb'''\n c d)\n", "if (a\n  and b c):\n  pass\n", "1 +\n\n# c\n", "raise E from\n", "except: pass\n",
]


def main():
    chk = Check("C11", "model_checking",
                "on every REJECTING path of the symbolic explorations the raised SyntaxError/IndentationError is checked for message, file name, line "
                "range, 1-based column inside the line, end >= start and text starting with the offending line; at token level the column is a z3 term "
                "and the inequalities are proved for every spacing of the path class")
    repo()
    chk.assumptions += ["text/line comparisons are evaluated on the path witness; column inequalities are solver-proved at level B",
                        "errors raised by the tokenizer itself (TokenError) are outside C11 (they are not SyntaxError)"]
    collect_functions(chk, lambda: [harness.oracles.run_parse(repo().real, s) for s in ("x = (1,\n\n  2 3)\n", "(a, b) += 1\n", "f!(a]\n")])
    py, xs, lits = seeds.all_seeds()
    o = ("c11",)
    sig = levelb.sigma()
    N = 2 if chk.quick else 3
    for n in range(1, N + 1):
        chk.run(f"B-full exec N={n}", harness.B_harness(lambda ex, n=n: [levelb.sym_slots(ex, n)], path_oracles=o, symbolic_gaps=True, extra=lifting.c11_extra),
                f"all token streams of length {n} over Sigma ({len(sig)} kinds), symbolic gaps", vacuity=("SyntaxError",))
    L = 2 if chk.quick else 3
    for l in range(1, L + 1):
        chk.run(f"A-full parse exec L={l}", harness.A_harness(lambda ex, l=l: chars.sym_text(ex, "c", l), path_oracles=o),
                f"all strings over R of length {l}", vacuity=("SyntaxError",))
    bad = [t for t in lits if len(t) < 120]
    xg = seeds.grammar_programs("xonsh", 3 if chk.quick else 8, chk.seed)
    pycommon.b_holes(chk, o, seeds.sample(chk.rng, xg, 60 if chk.quick else 1000), 2 if chk.quick else 0, python_only=False, wall=120 if chk.quick else 2400, vac=("SyntaxError",),
                     symbolic_gaps=False, name="B-holes k=1 on xonsh.gram derivations")
    if chk.quick:
        pycommon.b_holes(chk, o, seeds.sample(chk.rng, py, 50) + seeds.sample(chk.rng, xs, 30), 3, python_only=False, wall=100, vac=("SyntaxError",), symbolic_gaps=False)
        pycommon.a_holes(chk, o, LAYOUT_ERR_SEEDS + seeds.sample(chk.rng, bad, 40), 4, wall=120, vac=("SyntaxError",))
        cut_src = [s for s in seeds.sample(chk.rng, py + xs, 40) if len(s) < 120]
    else:
        pycommon.b_holes(chk, o, py + xs, 0, python_only=False, wall=2400, vac=("SyntaxError",), symbolic_gaps=False)
        pycommon.a_holes(chk, o, LAYOUT_ERR_SEEDS + bad + xs + py, 0, wall=2400, vac=("SyntaxError",))
        cut_src = [s for s in py + xs if len(s) < 200]
    pycommon.indent_skeleton(chk, o, 4 if chk.quick else 5, pycommon.CORE_OPTS, wall=120 if chk.quick else 1200)
    pycommon.indent_skeleton(chk, o, 2 if chk.quick else 3, pycommon.RICH_OPTS, wall=120 if chk.quick else 1500, label="rich")
    pycommon.k0_texts(chk, o, seeds.literal_product(), "literal evaluation product k=0", wall=150 if chk.quick else 600, vac=("SyntaxError",))
    from symx import errseeds
    ac = errseeds.after_constructs()
    ep = seeds.expr_product()
    pycommon.k0_texts(chk, o, ep if not chk.quick else seeds.sample(chk.rng, ep, 1500), "expression kinds x positions k=0", wall=150 if chk.quick else 900, vac=("SyntaxError",))
    pycommon.k0_texts(chk, o, errseeds.spanning_errors(), "errors whose range spans a multi-line construct k=0", wall=120 if chk.quick else 600, vac=("SyntaxError",))
    pycommon.k0_texts(chk, o, ac if not chk.quick else seeds.sample(chk.rng, ac, 700), "multi-line construct x filler x error line k=0", wall=150 if chk.quick else 900,
                      vac=("SyntaxError",))
    ee = errseeds.eval_errors()

    def tfe(ex):
        return ee[harness.choose_index(ex, "e", len(ee))]
    chk.run("eval-mode errors behind leading white space k=0", harness.A_harness(tfe, path_oracles=o), f"{len(ee)} (lead, expression error) texts in eval mode",
            wall=120 if chk.quick else 600, vacuity=("SyntaxError",))
    for l in range(1, L + 1):
        chk.run(f"A-full parse eval L={l}", harness.A_harness(lambda ex, l=l: chars.sym_text(ex, "c", l), mode="eval", path_oracles=o),
                f"all strings over R of length {l}, eval mode", vacuity=("SyntaxError",))
    cut_src = [s for s in LAYOUT_ERR_SEEDS if len(s) < 120] + cut_src
    ml = pycommon.relayout_multiline([s for s in py if len(s) < 120] + seeds.sample(chk.rng, seeds.expr_product(), 150 if chk.quick else 1500))
    chk.extra["multiline_relayouts"] = len(ml)
    pycommon.b_holes(chk, o, [], 0) if False else None
    pycommon.a_holes(chk, o, ml if not chk.quick else seeds.sample(chk.rng, ml, 80), 4 if chk.quick else 0, wall=150 if chk.quick else 2400, maxlen=240,
                     name="A-holes k=1 on multi-line relayouts", vac=("SyntaxError",))
    dels = pycommon.token_deletions(ml if not chk.quick else seeds.sample(chk.rng, ml, 150))
    pycommon.k0_texts(chk, o, dels, "single-token deletions of multi-line relayouts k=0", wall=150 if chk.quick else 1200, vac=("SyntaxError",))
    tf, ncuts = cut_textfn(cut_src)
    chk.run("A-prefixes", harness.A_harness(tf, path_oracles=o), f"every proper prefix of {len(cut_src)} seeds ({ncuts} cuts)",
            wall=100 if chk.quick else 900, vacuity=("SyntaxError",))
    chk.finish()


if __name__ == "__main__":
    main()
