"""C05 — xonsh expression sugar desugars identically in every expression context (DESIGN §2 C05)."""
import ast

from symx import chars, harness, levela, levelb, oracles, oracles2, seeds
from symx.chars import SymStr
from symx.check import Check, collect_functions
from symx.load import repo

KEYS = list(oracles2.CONSTRUCTS)
TARGET_TEMPLATES = ["@@ = 1\n", "for @@ in x: pass\n", "with a as @@: pass\n", "[1 for @@ in y]\n", "@@, b = 1, 2\n", "(@@) = 1\n", "[@@, a] = x\n", "for a, @@ in x: pass\n",
                    "*@@, a = x\n", "with a as (@@, b): pass\n", "x = @@ = 1\n", "{k: 1 for k, @@ in y}\n", "async def f():\n    async for @@ in y: pass\n", "(a, (@@, c)) = z\n",
                    "with a as b, c as @@: pass\n", "for @@ in a:\n    pass\nelse:\n    pass\n"]


FIXED_TEMPLATES = ["x = f(@@, @@)\n", "x = @@ if @@ else @@\n", "x = @@  # like `glob` and $(this)\n", "y = [@@, 'a', @@]\nz = @@\n", "x = {@@: @@}\n", "x = (@@,\n     @@)\n",
                   "x = @@ + @@ * @@\n", "print(@@); print(@@)\n", "x = @@\ny = @@\n", "x = p and @@\n", "x = @@ and q\n", "x = p or @@\n", "x = @@ or q\n", "if ready and @@:\n    pass\n", "[i for i in s if i and @@]\n", "x = not @@\n",
                   "open(@@, 'rb')\n", "@@ / 'data.txt'\n", "x = @@\nmode = 'w'\n", "def g(p=@@, enc='utf8'): pass\n", "x = [@@, 'a', f'{b}', 'c']\n", "y = @@ if 's' else 't'\n",
                   "print('a', @@, 'b')\n", "x = {'k': @@, 'l': 'm'}\n", "f(@@)('s')\n", "x = @@, 'tail'\n"]


def tokens_of(text):
    X = repo().real
    T = X.tokenize.Token
    return [levelb.Slot(kind=(t.type.name, t.string)) for t in (oracles.safe_tokens(X, text) or [])
            if t.type not in (T.WS, T.NEWLINE, T.NL, T.ENDMARKER, T.COMMENT)]


def b_context(p, s):
    hole_slot = levelb.Slot(kind=("NAME", oracles2.HOLE))

    def harness_(ex):
        rp = repo()
        ci = harness.choose_index(ex, "construct", len(KEYS))
        key = KEYS[ci]
        text, trans = oracles2.CONSTRUCTS[key]
        pre = levelb.sym_slots(ex, p, name="p")
        post = levelb.sym_slots(ex, s, name="s")
        rec = {"outcome": "?", "validated": 0, "viol": []}
        st0 = levelb.Stream(ex, [pre + [hole_slot] + post], name="H", symbolic_gaps=False)
        k0, t0 = levelb.parse_stream(st0, "exec")
        if k0 != "ok":
            rec["outcome"] = "context-rejected"
            return rec
        m = ex.get_model()
        pre_txt = " ".join(sl.text(m) for sl in pre)
        post_txt = " ".join(sl.text(m) for sl in post)
        template = (pre_txt + " " if pre_txt else "") + "@@" + (" " + post_txt if post_txt else "") + "\n"
        rec["w"] = [template, key]
        X = rp.real
        # realizable context?
        rk, rpl = oracles.run_tokens(X, template.replace("@@", oracles2.HOLE), 2.0)
        real = [(t.type.name, t.string) for t in rpl if t.type.name not in ("WS", "NL", "COMMENT", "NEWLINE", "ENDMARKER", "INDENT", "DEDENT")] if rk == "ok" else None
        want = [(sl.tname(m), sl.text(m)) for sl in pre] + [("NAME", oracles2.HOLE)] + [(sl.tname(m), sl.text(m)) for sl in post]
        if real != want:
            rec["outcome"] = "unrealizable"
            return rec
        from symx.chars import conc_copy
        status, _node = oracles2._hole_status(conc_copy(t0, m))
        if status != "load":
            rec["outcome"] = "hole-" + status
            return rec
        # construct run on the same context variables
        st1 = levelb.Stream(ex, [pre + tokens_of(text) + post], name="C", symbolic_gaps=False)
        k1, t1 = levelb.parse_stream(st1, "exec")
        rec["outcome"] = "expression-hole"
        v = oracles2.c05(X, template, key)
        rec["validated"] += 3
        if v is not None:
            rec["viol"].append({"oracle": "c05", "args": [template, key], "kwargs": {}, "v": v})
        elif k1 != "ok":
            # construct tokens were spaced apart in the stream; the concrete text keeps them adjacent - only report a confirmed case
            pass
        return rec
    return harness_


def seed_templates(texts, rng, per_text):
    """every NAME occurrence of a seed becomes a candidate hole (admissibility is decided by the placeholder run)"""
    X = repo().real
    T = X.tokenize.Token
    out = []
    for t in texts:
        toks = oracles.safe_tokens(X, t)
        if toks is None:
            continue
        lines = t.splitlines(keepends=True)
        starts = [0]
        for ln in lines:
            starts.append(starts[-1] + len(ln))
        cands = []
        for k in toks:
            if k.type == T.NAME and k.start[0] == k.end[0] and k.string not in X.parser.XonshParser.KEYWORDS:
                o = starts[k.start[0] - 1] + k.start[1]
                cands.append(t[:o] + "@@" + t[o + len(k.string):])
        if per_text and len(cands) > per_text:
            cands = rng.sample(cands, per_text)
        out += cands
    return out


def a_templates(templates, hole_after=False):
    """level A: template (concrete) x construct, optionally one symbolic character right after the construct"""
    def harness_(ex):
        rp = repo()
        ti = harness.choose_index(ex, "tmpl", len(templates))
        ci = harness.choose_index(ex, "construct", len(KEYS))
        tmpl, key = templates[ti], KEYS[ci]
        text, trans = oracles2.CONSTRUCTS[key]
        rec = {"outcome": "?", "validated": 0, "viol": []}
        if hole_after and tmpl.count("@@") != 1:
            hole_after_ = False
        else:
            hole_after_ = hole_after
        if hole_after_:
            i = tmpl.index("@@")
            sym = chars.sym_text(ex, "n", 1)
            src = SymStr.mk(tmpl[:i] + text) + sym + tmpl[i + 2:]
            k, pl = levela.sym_parse(src, "exec")
            m = ex.get_model()
            ch = sym.ev(m)
            tmpl = tmpl[:i] + "@@" + ch + tmpl[i + 2:]
            rec["outcome"] = k
        X = rp.real
        v = oracles2.c05(X, tmpl, key)
        rec["validated"] += 3
        rec["w"] = [tmpl, key]
        if not hole_after_:
            kp, tp = oracles.run_parse(X, tmpl.replace("@@", oracles2.HOLE), "exec")
            rec["outcome"] = "expression-hole" if kp == "ok" and oracles2._hole_status(tp)[0] == "load" else "not-a-hole"
        if v is not None:
            rec["viol"].append({"oracle": "c05", "args": [tmpl, key], "kwargs": {}, "v": v})
        return rec
    return harness_


def targets():
    def harness_(ex):
        ti = harness.choose_index(ex, "tmpl", len(TARGET_TEMPLATES))
        key = ("env", "envexpr")[harness.choose_index(ex, "c", 2)]
        tmpl = TARGET_TEMPLATES[ti]
        v = oracles2.c05_target(repo().real, tmpl, key)
        rec = {"outcome": "target", "validated": 2, "viol": [], "w": [tmpl, key]}
        if v is not None:
            rec["viol"].append({"oracle": "c05_target", "args": [tmpl, key], "kwargs": {}, "v": v})
        return rec
    return harness_


def main():
    chk = Check("C05", "model_checking",
                "contexts are symbolic: p tokens before and s tokens after an expression hole are solver variables; the placeholder run of the real parser "
                "decides (per path class) whether the hole is an admissible Load position; for each such class and each construct of the documented table "
                "the construct run must equal the run on the written-out translation (structure) and the construct node must span exactly the inserted text. "
                "Seed programs contribute every NAME position as a candidate hole, optionally with a symbolic character right after the construct")
    repo()
    chk.assumptions += ["the translation table is the documented one (DESIGN §2 C05); the written-out translation is parsed by this parser",
                        "admissible hole = placeholder Name has Load context and is not under an assignment/augassign/annotation/del/binding target nor directly after '@'"]
    collect_functions(chk, lambda: oracles.run_parse(repo().real, "f($X)[${'a'}] + $(ls) + `a` + p'b' if x? else !(c) && ![d]\n", "exec"))
    harness.oracles.ORACLES.update(oracles2.ORACLES)
    for p, s in ([(1, 1)] if chk.quick else [(1, 1), (2, 1), (1, 2)]):
        chk.run(f"B-context p={p} s={s}", b_context(p, s), f"{p} symbolic tokens before and {s} after the hole over Sigma x {len(KEYS)} constructs",
                wall=200 if chk.quick else 2400, vacuity=("expression-hole",))
    py, xs, lits = seeds.all_seeds()
    tm = FIXED_TEMPLATES + seed_templates(py if not chk.quick else seeds.sample(chk.rng, py, 60), chk.rng, 0 if not chk.quick else 2)
    chk.extra["seed_templates"] = len(tm)
    chk.run("A-seed contexts", a_templates(tm), f"{len(tm)} NAME positions of seed programs x {len(KEYS)} constructs", wall=150 if chk.quick else 1800,
            vacuity=("expression-hole",))
    tm2 = tm[:40] if chk.quick else tm[:600]
    chk.run("A-seed contexts + symbolic char after the construct", a_templates(tm2, hole_after=True),
            f"{len(tm2)} templates x {len(KEYS)} constructs with one symbolic character following the construct", wall=150 if chk.quick else 1800, vacuity=("ok",))
    chk.run("binding targets", targets(), f"{len(TARGET_TEMPLATES)} target templates x ($NAME, ${{expr}})", vacuity=("target",))
    chk.finish()


if __name__ == "__main__":
    main()
