"""C16 — the shipped generated parsers are exactly what their grammars generate (DESIGN §2 C16)."""
import importlib.util
import os
import shutil
import sys
import tempfile

from symx import coexec, core, harness, levelb, oracles, oracles2, seeds
from symx.check import Check
from symx.load import repo, REPO


def load_module(path, name):
    spec = importlib.util.spec_from_file_location(name, path)
    mod = importlib.util.module_from_spec(spec)
    spec.loader.exec_module(mod)
    return mod


def method_pairs(cls_a, cls_b):
    pairs = []
    for n, fa in vars(cls_a).items():
        if callable(fa) and not n.startswith("__"):
            fb = vars(cls_b).get(n)
            if fb is None:
                continue
            pairs.append((n, getattr(fa, "__wrapped__", fa), getattr(fb, "__wrapped__", fb)))
    return pairs


def main():
    chk = Check("C16", "translation_validation",
                "both generation steps are re-run from the working tree into a scratch directory; every shipped rule method is compared with its regenerated "
                "counterpart (a) as normalised AST (bodies, decorators, keyword tables: the verdict of 'same bodies') and (b) by symbolic co-execution with "
                "uninterpreted sub-rules: both bodies run against a recording self whose rule/token calls return fresh symbols with solver-chosen truthiness; "
                "call/_mark/_reset traces and action terms must coincide on every path. Generation is repeated under several PYTHONHASHSEED values")
    rp = repo()
    harness.oracles.ORACLES.update(oracles2.ORACLES)
    sys.path.insert(0, REPO)
    d = tempfile.mkdtemp(prefix="c16chk_")
    diffs = []
    programs = 0
    try:
        for which, shipped_rel, clsname in (("xonsh", "peg_parser/parser.py", "XonshParser"), ("meta", "pegen/grammar_parser.py", "GeneratedParser")):
            out = os.path.join(d, f"{which}.py")
            rc, err = oracles2.regenerate(REPO, which, out)
            if rc != 0:
                chk.add_candidate({"oracle": "c16", "args": [which], "kwargs": {}, "v": {"kind": "generation-failed", "observed": err}})
                continue
            v = oracles2.c16(None, which, REPO)
            chk.validated += 1
            if v is not None:
                chk.add_candidate({"oracle": "c16", "args": [which], "kwargs": {}, "v": v})
            a = oracles2._normalised_methods(out)
            b = oracles2._normalised_methods(os.path.join(REPO, shipped_rel))
            chk.extra[f"{which}_entries_compared"] = len(set(a) | set(b))
            chk.extra[f"{which}_entries_equal"] = sum(1 for k in a if b.get(k) == a[k])
            gen = load_module(out, f"c16_gen_{which}")
            shp = load_module(os.path.join(REPO, shipped_rel), f"c16_shipped_{which}")
            pairs = method_pairs(getattr(shp, clsname), getattr(gen, clsname))
            programs += len(pairs)
            chk.functions |= {f"{shipped_rel}: {len(pairs)} methods of {clsname} (shipped and regenerated)", "tasks/generator.py", "pegen/python_generator.py"}

            def on_rec(r, which=which):
                if r.get("outcome") == "differs" and len(diffs) < 10:
                    diffs.append((which, r["diff"]))
            old = chk.on_record

            def both(r, old=old, on_rec=on_rec):
                old(r)
                on_rec(r)
            chk.on_record = both
            chk.run(f"co-execution {which} ({len(pairs)} methods)", coexec.co_harness(pairs),
                    f"all {len(pairs)} methods of {clsname}: every path of shipped body x regenerated body with uninterpreted sub-rules",
                    wall=300 if chk.quick else 1500, vacuity=("equal",), step_budget=10**9)
            chk.on_record = old
    finally:
        shutil.rmtree(d, ignore_errors=True)
    for which, df in diffs:
        # a semantic difference must also show as a body difference; the concrete oracle re-derives it for the replay
        v = oracles2.c16(None, which, REPO)
        if v is None:
            chk.inconclusive.append({"what": "co-execution differs although normalised bodies are equal", "detail": df})
        else:
            v["coexecution_witness"] = df
            chk.add_candidate({"oracle": "c16", "args": [which], "kwargs": {}, "v": v})
    chk.extra["programs"] = max(programs, 1)
    chk.extra["disagreements_checked"] = len(diffs)
    chk.assumptions += ["sub-rules, tokens and helper combinators are uninterpreted (nondeterministic stubs with solver-chosen truthiness)",
                        "hash-seed independence is a sampled configuration sweep (PYTHONHASHSEED in {unset, 0, 1, 12345}), outside the solver-decided claim"]
    chk.finish()


if __name__ == "__main__":
    main()
