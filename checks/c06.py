"""C06 — subprocess arguments follow source word boundaries and map to the right runtime call (DESIGN §2 C06)."""
import z3

from symx import chars, harness, levela, levelb, oracles, oracles2, seeds
from symx.chars import SymStr, conc_copy
from symx.check import Check, collect_functions
from symx.levelb import SymInt
from symx.load import repo

BODIES = ["ls -l", "ls  -la   /tmp", "echo --opt=val -x 1e5x a.b/c ..", "echo $HOME", "echo $HOME/x", "echo x$HOME", "echo @(1 + 2)", "echo pre@(x)post", "echo @$(which ls)",
          "ls $(pwd)", "echo 'a b' \"c\"", "echo a'b c'd", "ls | grep x", "a && b", "a; b", "echo hi > out.txt", "echo hi 2>&1", "sleep 1 &", "cd ..", "x=1 y", "echo é ü",
          "echo 1 2.5 0x1f 08 1_ 1..2", "echo -1 +2 *3", "echo a,b a:b a=b", "ls\t-l", "echo a\nb", "git commit\n-m msg\n--amend", "echo a\n  b", "cp a@(x)b.c dest", "tar czf @(name).tar.gz src", "@$(which python)/bin/x y", "echo ~ ~/x %d ^x", "echo @ a@b", "echo $A$B", "echo $(a b)$(c)", "echo ![x y]",
          "git commit -m 'msg here'", "echo a=$HOME", "echo $HOME:$PATH", "echo *.py **/*.txt", "echo <in >out", "echo a<b", "echo :=", "echo -> =>", "echo // ** <<= >>=",
          "echo $[inner x]", "echo !(obj y)", "echo print exec match case type _", "a", "a b c d e f", "-", "$X", "@(x)", "@$(y)", "$(z)",
          # round 5: a multi-line triple-quoted string glued between a prefix and a suffix; an empty subprocess macro before further words
          'echo a"""x\ny"""b c', "tar --exclude='''p\nq'''.bak -c .", 'echo """x\ny"""b', 'echo a"""x\ny"""', "echo $(sudo!) a b", "echo $(sudo!)  a  b", "echo ![x!] $(ls -l  /tmp)"]
ALPHABET = "abZ019_-./=:,+%^~*<>|&;@é\U0001d400\u0663 \t\n$"   # incl. a letter and a digit that NFKC / int() would change
FORM_KEYS = list(oracles2.FORMS)


def test_bodies():
    """command lines of the repo's own tests/data (subproc.py, redirects.py, ...)"""
    import re
    out = []
    for name, text in seeds.data_files():
        if "/exprs/" in name:
            for m in re.finditer(r"[$!][(\[]([^()\[\]\n]{1,60})[)\]]", text):
                out.append(m.group(1))
    return list(dict.fromkeys(out))


def a_bodies(cases, k):
    allowed = chars.allowed_set(ALPHABET)

    def harness_(ex):
        rp = repo()
        fi = harness.choose_index(ex, "form", len(FORM_KEYS))
        form = FORM_KEYS[fi]
        closer = oracles2.FORMS[form][0]
        ci = harness.choose_index(ex, "case", len(cases))
        body, pos = cases[ci]
        rec = {"outcome": "?", "validated": 0, "viol": []}
        if pos is None:
            b = body
        elif pos == "full":
            b = chars.sym_text(ex, "c", k, allowed)
        else:
            b = harness.text_with_holes(ex, body, [pos], k, allowed=allowed)
        src = form + b + closer + "\n" if not isinstance(b, str) else form + b + closer + "\n"
        kind, pl = levela.sym_parse(src, "exec")
        m = ex.get_model()
        wb = b.ev(m) if isinstance(b, SymStr) else b
        rec["outcome"] = kind
        rec["w"] = [form, wb]
        X = rp.real
        rk, rpl = oracles.run_parse(X, form + wb + closer + "\n", "exec")
        rec["validated"] += 1
        so, ro = levela.observable(kind, conc_copy(pl, m) if kind == "ok" else pl, m if kind != "ok" else None), levela.observable(rk, rpl)
        if so != ro:
            rec["mismatch"] = harness._mm("parse", so, ro)
        v = oracles2.c06(X, form, wb)
        if v is not None:
            rec["viol"].append({"oracle": "c06", "args": [form, wb], "kwargs": {}, "v": v})
        return rec
    return harness_


WORD_KINDS = [("NAME", "foo"), ("NAME", "bar"), ("NUMBER", "1"), ("OP", "-"), ("OP", "."), ("OP", "/"), ("OP", "="), ("STRING", "'s'"), ("OP", ":"), ("OP", "+")]


def b_gaps(n):
    """`$(` w1 .. wn `)` with symbolic kinds over plain word tokens and symbolic gaps: z3 proves same-argument <=> gap == 0"""
    sig = WORD_KINDS

    def harness_(ex):
        rp = repo()
        ws = [levelb.Slot(var=ex.fd(f"w{i}", len(sig)), sig=sig) for i in range(n)]
        row = [levelb.Slot(kind=("OP", "$("))] + ws + [levelb.Slot(kind=("OP", ")"))]
        st = levelb.Stream(ex, [row], symbolic_gaps=True)
        kind, tree = levelb.parse_stream(st, "exec")
        m = st.witness(prefer_distinct=False)
        w = st.render(m)
        rec = {"outcome": kind, "w": w, "validated": 0, "viol": [], "queries": 0}
        X = rp.real
        kinds = [(s.tname(m), s.text(m)) for s in row]
        rk, rpl = oracles.run_tokens(X, w, 2.0)
        real = [(t.type.name, t.string) for t in rpl if t.type.name not in ("WS", "NL", "COMMENT", "NEWLINE", "ENDMARKER")] if rk == "ok" else None
        if real != kinds:
            rec["outcome"] = "unrealizable"
            return rec
        if kind != "ok":
            v = oracles2.c06(X, "$(", w[2:w.rindex(")")])
            if v is not None:
                rec["viol"].append({"oracle": "c06", "args": ["$(", w[2:w.rindex(")")]], "kwargs": {}, "v": v})
            return rec
        call = tree.body[0].value
        args = call.args
        S, E, G = st.starts[0], st.ends[0], st.gaps[0]

        def term(v):
            return v.e if isinstance(v, SymInt) else v
        # locate each argument's first and last word token by proving span equalities
        pos = 1
        bad = None
        proved = 0
        for a in args:
            first = pos
            st_, _ = ex.prove(term(a.col_offset) == S[first])
            rec["queries"] += 1
            if st_ != "valid":
                bad = f"argument does not start at word {first - 1}"
                break
            last = first
            while last <= n:
                st2, _ = ex.prove(term(a.end_col_offset) == E[last])
                rec["queries"] += 1
                if st2 == "valid":
                    break
                last += 1
            if last > n:
                bad = "argument end is not a word end for every spacing"
                break
            for i in range(first + 1, last + 1):
                st3, _ = ex.prove(G[i] == 0)
                rec["queries"] += 1
                if st3 != "valid":
                    bad = f"words {i - 2},{i - 1} are glued although their gap may be positive"
                    break
                proved += 1
            if bad:
                break
            if last < n:
                st4, _ = ex.prove(G[last + 1] > 0)
                rec["queries"] += 1
                if st4 != "valid":
                    bad = f"words {last - 1},{last} are separate arguments although their gap may be zero"
                    break
                proved += 1
            pos = last + 1
        if bad is None and pos != n + 1:
            bad = "arguments do not cover all words"
        rec["symassert"] = proved
        body = w[2:w.rindex(")")]
        v = oracles2.c06(X, "$(", body)
        rec["validated"] += 1
        if v is not None:
            rec["viol"].append({"oracle": "c06", "args": ["$(", body], "kwargs": {}, "v": v})
        elif bad is not None:
            rec.setdefault("inconclusive", []).append({"what": "gap proof failed but the witness satisfies the word model: " + bad, "w": w})
        return rec
    return harness_


def main():
    chk = Check("C06", "model_checking",
                "(A) command bodies with symbolic characters over the shell-word alphabet inside the four bracket forms run through the real tokenizer and "
                "parser; the returned Call is compared with an independent whitespace word-splitting model (argument count, spans, verbatim constants, "
                "$NAME / @(..) / @$(..) / nested forms, method per bracket form); (B) n word tokens with symbolic kinds and symbolic gaps: z3 proves for every "
                "path class that two neighbouring words are glued into one argument exactly when their gap is 0")
    repo()
    chk.assumptions += ["word model: whitespace = space, tab, newline; quotes and brackets protect whitespace; glued mixed words ($NAME or @(..) inside a longer word) are "
                        "checked for count and span only", "reserved words, '#', '!', '?', backtick, backslash and unbalanced brackets are outside the domain"]
    collect_functions(chk, lambda: oracles.run_parse(repo().real, "$(echo --opt=val $HOME/x @(a) @$(b c) ![d] 'e f')\n", "exec"))
    harness.oracles.ORACLES.update(oracles2.ORACLES)
    bodies = list(dict.fromkeys(BODIES + test_bodies()))
    chk.extra["command_lines"] = len(bodies)
    chk.run("A-bodies k=0", a_bodies([(b, None) for b in bodies], 0), f"{len(bodies)} command lines x 4 bracket forms", vacuity=("ok",))
    cases = [(b, p) for b in bodies for p in range(len(b))]
    if chk.quick:
        cases = chk.rng.sample(cases, min(len(cases), 120))
    chk.extra["hole_positions"] = len(cases)
    chk.run("A-bodies k=1", a_bodies(cases, 1), f"{len(cases)} (command line, position) pairs with one symbolic character over the shell-word alphabet x 4 forms",
            wall=150 if chk.quick else 1800, vacuity=("ok",))
    L = 2 if chk.quick else 3
    chk.run(f"A-full body L={L}", a_bodies([("", "full")], L), f"all bodies of length {L} over the alphabet {ALPHABET!r} x 4 forms", wall=150 if chk.quick else 1800,
            vacuity=("ok",))
    if not chk.quick:
        cases2 = [(b, p) for b in BODIES for p in range(len(b) - 1)]
        chk.run("A-bodies k=2 adjacent", a_bodies(cases2, 2), f"{len(cases2)} positions with two adjacent symbolic characters x 4 forms", wall=1800, vacuity=("ok",))
    for n in ((2, 3) if chk.quick else (2, 3, 4)):
        chk.run(f"B-gaps n={n}", b_gaps(n), f"$( w1..w{n} ) with word kinds over {len(WORD_KINDS)} plain word tokens and symbolic gaps >= 0", wall=150 if chk.quick else 1800,
                vacuity=("ok",))
    chk.finish()


if __name__ == "__main__":
    main()
