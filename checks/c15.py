"""C15 — options only do what they say: verbose is inert, py_version gating is monotone (DESIGN §2 C15)."""
import contextlib
import io
import re

import z3

from symx import chars, harness, levela, levelb, oracles, seeds
from symx.check import Check, collect_functions
from symx.load import repo
from checks import pycommon

GATED = ["try:\n    a\nexcept* E as e:\n    b\n", "type X = int\n", "type X[T] = list[T]\n", "def f[T](x: T) -> T: pass\n", "class C[T]: pass\n",
         "def f[T: int, *Ts, **P](): pass\n", "try:\n    a\nexcept* (A, B):\n    b\nelse:\n    c\nfinally:\n    d\n", "x = 1\n", "match x:\n    case 1: pass\n",
         "with (a as b, c as d): pass\n", "x = (y := 1)\n", "def f(a, /, b): pass\n", "print(f'{a!r}')\n", "type = 1\n", "async def f():\n    async with a: pass\n"]


def product_extra(ex, rec, st, payload, kind, m, w, md):
    """run the same symbolic stream again with verbose=True and with py_version=(3, m), m symbolic"""
    from symx.chars import conc_copy
    base = levela.observable(kind, conc_copy(payload, m) if kind == "ok" else payload, m if kind != "ok" else None)
    rows, ind = st.rows, st.indents
    st2 = levelb.Stream(ex, rows, symbolic_gaps=st.symbolic_gaps, indents=ind)
    k2, p2 = levelb.parse_stream(st2, md, verbose=True)
    m = st2.witness() if False else ex.get_model()
    w = st2.render(m)
    base = levela.observable(kind, conc_copy(payload, m) if kind == "ok" else payload, m if kind != "ok" else None)
    o2 = levela.observable(k2, conc_copy(p2, m) if k2 == "ok" else p2, m if k2 != "ok" else None)
    rec["w"] = w
    X = repo().real
    if o2 != base:
        v = oracles.c15(X, w, md)
        if v is not None:
            rec["viol"].append({"oracle": "c15", "args": [w, md], "kwargs": {}, "v": v})
        else:
            rec.setdefault("inconclusive", []).append({"what": "verbose product differs symbolically but not concretely", "w": w})
    minor = ex.int("pyminor", 8, 13)
    st3 = levelb.Stream(ex, rows, symbolic_gaps=st.symbolic_gaps, indents=ind)
    k3, p3 = levelb.parse_stream(st3, md, py_version=(3, levelb.SymInt(minor)))
    m = ex.get_model()
    w = st3.render(m)
    mv = m.eval(minor, model_completion=True).as_long()
    base = levela.observable(kind, conc_copy(payload, m) if kind == "ok" else payload, m if kind != "ok" else None)
    o3 = levela.observable(k3, conc_copy(p3, m) if k3 == "ok" else p3, m if k3 != "ok" else None)
    rec["w"] = w
    rec["symassert"] = 2
    if o3 != base:
        ok = False
        if k3 == "SyntaxError":
            mm = re.search(r"Python \((\d+), (\d+)\)", str(o3[1][1]))
            if mm and (int(mm.group(1)), int(mm.group(2))) > (3, mv):
                ok = True
                # monotone: the same stream must be accepted unchanged for every minor >= required
                r = int(mm.group(2))
                st_, cex = ex.prove(minor < r)
                rec["queries"] = rec.get("queries", 0) + 1
                if st_ != "valid":
                    ok = False
        if not ok:
            v = oracles.c15(X, w, md)
            if v is not None:
                rec["viol"].append({"oracle": "c15", "args": [w, md], "kwargs": {}, "v": v})
            else:
                rec.setdefault("inconclusive", []).append({"what": f"py_version=(3,{mv}) product differs symbolically but not concretely", "w": w})
    # the concrete oracle on the witness covers the whole option grid for this path's representative
    v = oracles.c15(X, w, md)
    rec["validated"] = rec.get("validated", 0) + 1
    if v is not None:
        rec["viol"].append({"oracle": "c15", "args": [w, md], "kwargs": {}, "v": v})


def main():
    chk = Check("C15", "model_checking",
                "product execution on shared symbolic token streams: the real parser runs three times on the same solver variables - default options, "
                "verbose=True (print discarded; memoize/memoize_left_rec/logger take their slow paths) and py_version=(3, m) with m a solver variable in "
                "[8, 13] (the tuple comparisons in Parser.__init__/check_version fork on m); outcomes must coincide, or be a SyntaxError naming a required "
                "version above m, for every member of the joint path class")
    repo()
    chk.assumptions += ["print is replaced by a no-op (its arguments are still evaluated)", "level B stream invariant"]
    chk.stubs += ["print -> no-op in the loaded modules"]
    with contextlib.redirect_stdout(io.StringIO()):
        collect_functions(chk, lambda: oracles.run_parse(repo().real, "type X = [a for a in b]\n", "exec", verbose=True, py_version=(3, 9)))
    sig = levelb.sigma()
    N = 1 if chk.quick else 2
    for n in range(1, N + 1):
        for mode in ("exec", "eval"):
            chk.run(f"B-full {mode} N={n} x (default, verbose, py_version=(3,m))",
                    harness.B_harness(lambda ex, n=n: [levelb.sym_slots(ex, n)], mode=mode, symbolic_gaps=False, extra=product_extra),
                    f"all token streams of length {n} over Sigma x option product", wall=200 if chk.quick else 1500, vacuity=("ok", "SyntaxError"))
    py, xs, lits = seeds.all_seeds()
    texts = (GATED[:8] + seeds.sample(chk.rng, py, 4) + seeds.sample(chk.rng, xs, 4)) if chk.quick else GATED + py + xs
    pycommon.b_holes(chk, (), texts, 1 if chk.quick else 0, python_only=False, wall=150 if chk.quick else 2400, symbolic_gaps=False, extra=product_extra,
                     name="B-holes k=1 x option product")

    # k=0 over all seeds and test literals: the full concrete option grid (verbose x py_version 3.8..3.13 x mode)
    CHAINS = ["x" + " + x" * 1200 + "\n", "a" + ".b" * 1200 + "\n", "f" + "()" * 600 + "\n", "a" + "[0]" * 600 + "\n", "[" + "1, " * 800 + "2]\n", "x = " + "y = " * 300 + "1\n"]
    alltexts = CHAINS + GATED + py + xs + [t for t in lits if len(t) < 200]
    if chk.quick:
        alltexts = CHAINS + GATED + seeds.sample(chk.rng, py, 60) + seeds.sample(chk.rng, xs, 40) + seeds.sample(chk.rng, lits, 60)

    # rejected inputs too: the options must not move an error either (error-layout seeds, every single-token deletion of the gated and Python seeds)
    from checks.c11 import LAYOUT_ERR_SEEDS
    dels = pycommon.token_deletions(GATED + [s for s in py if len(s) < 120])
    alltexts = list(dict.fromkeys(alltexts + LAYOUT_ERR_SEEDS + (seeds.sample(chk.rng, dels, 250) if chk.quick else dels)))

    def tf(ex):
        i = harness.choose_index(ex, "seed", len(alltexts))
        md = "exec" if harness.choose_index(ex, "mode", 2) == 0 else "eval"
        return alltexts[i], md

    def grid(ex, rec, t, w, md):
        v = oracles.c15(repo().real, w, md)
        rec["validated"] += 1
        if v is not None:
            rec["viol"].append({"oracle": "c15", "args": [w, md], "kwargs": {}, "v": v})
    chk.run("seeds k=0 x full option grid", harness.A_harness(tf, validate=False, extra=grid), f"{len(alltexts)} seeds x 2 modes x verbose x py_version 3.8..3.13",
            wall=200 if chk.quick else 1800, vacuity=("ok", "SyntaxError"))
    chk.finish()


if __name__ == "__main__":
    main()
