"""C17 — the parser generator implements PEG semantics for every grammar (DESIGN §2 C17)."""
import random

from symx import core, harness, levelb, oracles, oracles2, pegref
from symx.chars import conc_copy
from symx.check import Check
from symx.load import exec_generated, repo, REPO
from symx.pegref import Alt, Rule

A, B, C = ("tok", "a"), ("tok", "b"), ("tok", "c")
SIG = [("NAME", "a"), ("NAME", "b"), ("NAME", "c"), ("NAME", "x"), ("NUMBER", "1")]


def n(name, it):
    return ("as", name, it)


def systematic_pool():
    P = {}

    def add(name, **rules):
        P[name] = rules
    add("seq_choice", top=Rule([Alt([A, B], "('ab',)"), Alt([A], "('a',)")]))
    add("choice_prefix_first", top=Rule([Alt([A], "('a',)"), Alt([A, B], "('ab',)")]))
    add("opt_mid", top=Rule([Alt([A, n("o", ("opt", B)), C], "('aoc', o is not None)")]))
    add("star", top=Rule([Alt([n("x", ("star", A)), B], "('s', len(x))")]))
    add("plus", top=Rule([Alt([n("x", ("plus", A)), B], "('p', len(x))"), Alt([B], "('b',)")]))
    add("gather", top=Rule([Alt([n("x", ("gather", C, A)), B], "('g', len(x))")]))
    add("gather_group", top=Rule([Alt([n("x", ("gather", C, ("group", [Alt([A]), Alt([B])])))], "('gg', len(x))")]))
    add("pos_look", top=Rule([Alt([("pos", A), n("t", ("NAME",))], "('n', 1)"), Alt([("pos", A), A, n("t", ("opt", B))], "('a', t is not None)"), Alt([B], "('b',)")]))
    add("neg_look", top=Rule([Alt([("neg", A), n("t", ("NAME",))], "('name',)"), Alt([A], "('a',)")]))
    add("neg_rule", top=Rule([Alt([("neg", ("rule", "ab")), A], "('a-not-ab',)"), Alt([("rule", "ab")], "('ab',)")]), ab=Rule([Alt([A, B], "('AB',)")]))
    add("cut", top=Rule([Alt([A, ("cut",), B], "(1,)"), Alt([A, C], "(2,)"), Alt([C], "(3,)")]))
    add("cut_in_group", top=Rule([Alt([("group", [Alt([A, ("cut",), B]), Alt([A, C])]), C], "(1,)"), Alt([A, C], "(2,)")]))
    add("forced", top=Rule([Alt([A, ("forced", B)], "(1,)"), Alt([C], "(2,)")]))
    add("group_choice", top=Rule([Alt([n("g", ("group", [Alt([A]), Alt([B])])), C], "('gc',)")]))
    add("group_seq_plus", top=Rule([Alt([n("x", ("plus", ("group", [Alt([A, B])]))), C], "('ab+', len(x))")]))
    add("left_rec", top=Rule([Alt([n("l", ("rule", "top")), A], "('L', l)"), Alt([B], "('B',)")]))
    add("left_rec_two", top=Rule([Alt([n("l", ("rule", "top")), A], "('La', l)"), Alt([n("l", ("rule", "top")), C], "('Lc', l)"), Alt([B], "('B',)")]))
    # indirect left recursion is entered through the cycle's leader (pegen grows only the statically chosen leader,
    # the alphabetically first rule common to all cycles; entering the cycle elsewhere is a documented pegen limitation)
    add("left_rec_indirect", top=Rule([Alt([n("m", ("rule", "zmid")), A], "('T', m)"), Alt([B], "('B',)")]),
        zmid=Rule([Alt([n("t", ("rule", "top")), C], "('M', t)"), Alt([C], "('C',)")]))
    add("left_rec_hidden_choice", top=Rule([Alt([n("e", ("rule", "expr"))], "('top', e)")]),
        expr=Rule([Alt([n("l", ("rule", "expr")), A, n("r", ("rule", "term"))], "('+', l, r)"), Alt([n("t", ("rule", "term"))], "('t', t)")]),
        term=Rule([Alt([n("l", ("rule", "term")), C, B], "('*', l)"), Alt([B], "('b',)")]))
    add("memo", top=Rule([Alt([n("m", ("rule", "m")), A], "(1, m)"), Alt([n("m", ("rule", "m")), B], "(2, m)")]), m=Rule([Alt([C, C], "('cc',)"), Alt([C], "('c',)")], memo=True))
    add("shared_helper", top=Rule([Alt([n("p", ("group", [Alt([A]), Alt([B])])), n("q", ("rule", "other"))], "('top', q)")]),
        other=Rule([Alt([n("p", ("group", [Alt([A]), Alt([B])])), C], "('other',)"), Alt([C], "('c',)")]))
    add("shared_repeat", top=Rule([Alt([n("x", ("star", ("group", [Alt([A]), Alt([B])]))), C, n("y", ("star", ("group", [Alt([A]), Alt([B])])))], "('xy', len(x), len(y))")]))
    atom = Rule([Alt([n("v", ("NUMBER",))], "('num',)"), Alt([n("v", ("NAME",))], "('name',)")])
    add("twin_lookahead_groups", top=Rule([Alt([n("x", ("group", [Alt([("pos", ("NUMBER",)), n("t", ("rule", "atom"))], "t")])),
                                               n("y", ("group", [Alt([("neg", ("NUMBER",)), n("t", ("rule", "atom"))], "t")]))], "('p', x, y)")]), atom=atom)
    add("twin_repeat_groups", top=Rule([Alt([n("x", ("group", [Alt([n("r", ("star", A)), B], "('s', len(r))")])), n("y", ("group", [Alt([n("r", ("plus", A)), B], "('s', len(r))")]))],
                                            "('q', x, y)")]))
    add("twin_opt_groups", top=Rule([Alt([n("x", ("group", [Alt([n("o", ("opt", A)), C], "('o', o is not None)")])), n("y", ("group", [Alt([n("o", A), C], "('o', o is not None)")]))], "('q', x, y)")]))
    add("twin_gather_groups", top=Rule([Alt([n("x", ("group", [Alt([n("g", ("gather", C, A))], "('g', len(g))")])), B, n("y", ("group", [Alt([n("g", ("gather", B, A))], "('g', len(g))")]))], "('q', x, y)")]))
    add("twin_literal_groups", top=Rule([Alt([n("x", ("group", [Alt([A, B], "('ab',)"), Alt([A], "('a',)")])), n("y", ("group", [Alt([A, C], "('ab',)"), Alt([A], "('a',)")]))], "('q', x, y)")]))
    add("left_rec_indirect_memo_member", top=Rule([Alt([n("m", ("rule", "zmid")), A], "('T', m)"), Alt([B], "('B',)")]),
        zmid=Rule([Alt([n("t", ("rule", "top")), C], "('M', t)"), Alt([C], "('C',)")], memo=True))
    add("left_rec_attr_chain", attr=Rule([Alt([n("v", ("rule", "name_or_attr")), C, n("a", ("NAME",))], "('attr', v)")]),
        name_or_attr=Rule([Alt([n("x", ("rule", "attr"))], "x"), Alt([n("x", ("NAME",))], "('n',)")], memo=True),
        top=Rule([Alt([n("x", ("rule", "attr"))], "('top', x)"), Alt([n("x", ("NAME",))], "('nm',)")]))
    # round 5 (R5_C17_A): a component of three rules with two cycles through `top`; its alphabetically first member (`aside`) lies on one of them only
    add("left_rec_two_cycles", top=Rule([Alt([n("m", ("rule", "aside")), A], "('T', m)"), Alt([n("z", ("rule", "zc")), C], "('Z', z)"), Alt([B], "('B',)")]),
        aside=Rule([Alt([n("t", ("rule", "top")), C], "('M', t)"), Alt([C], "('C',)")]),
        zc=Rule([Alt([n("t", ("rule", "top")), A], "('ZC', t)")]))
    add("left_rec_leader_memo", top=Rule([Alt([n("l", ("rule", "top")), A], "('L', l)"), Alt([B], "('B',)")], memo=True))
    add("rule_is_group_with_action", top=Rule([Alt([("group", [Alt([C, A]), Alt([B])])], "('t0',)")]))
    add("rule_is_group_without_action", top=Rule([Alt([("group", [Alt([C, A], "('ca',)"), Alt([B], "('b',)")])])]))
    add("terminals", top=Rule([Alt([n("k", ("NAME",)), A, n("v", ("NUMBER",))], "('kv',)"), Alt([n("v", ("NUMBER",))], "('v',)"), Alt([n("k", ("NAME",))], "('k',)")]))
    add("opt_group_alts", top=Rule([Alt([n("o", ("opt", ("group", [Alt([A, B]), Alt([A])]))), C], "('o', o is not None)")]))
    add("look_group", top=Rule([Alt([("pos", ("group", [Alt([A, B]), Alt([C])])), n("t", ("group", [Alt([A]), Alt([C])]))], "('lg',)"), Alt([A], "('a',)")]))
    add("default_action_single", top=Rule([Alt([("rule", "inner")]), Alt([C], "('c',)")]), inner=Rule([Alt([A, B], "('ab',)")]))
    add("nested_opt_star", top=Rule([Alt([n("x", ("star", ("group", [Alt([A, ("opt", B)])]))), C], "('n', len(x))")]))
    add("plus_then_same", top=Rule([Alt([n("x", ("plus", A)), A], "('never',)"), Alt([n("x", ("plus", A))], "('all', len(x))")]))
    add("gather_sep_rule", top=Rule([Alt([n("x", ("gather", ("rule", "sep"), ("rule", "el")))], "('g', len(x))")]), sep=Rule([Alt([C], "('sep',)")]),
        el=Rule([Alt([A, B], "('ab',)"), Alt([A], "('a',)")]))
    add("star_rule_memo", top=Rule([Alt([n("x", ("star", ("rule", "el"))), C], "('s', len(x))"), Alt([n("x", ("star", ("rule", "el")))], "('e', len(x))")]),
        el=Rule([Alt([A, B], "('ab',)"), Alt([B], "('b',)")], memo=True))
    return P


def operator_product():
    """every unary operator of the notation applied to every kind of operand (well-formed combinations only: no repetition of a nullable
    item, no lookahead / forced over an operand that can succeed with a falsy value)"""
    P = {}
    sub = Rule([Alt([A, B], "('ab',)"), Alt([A], "('a',)")])
    operands = {"tok": A, "NAME": ("NAME",), "rule": ("rule", "sub"), "gseq": ("group", [Alt([A, B])]), "gch": ("group", [Alt([A, B]), Alt([C])]),
                "opt": ("opt", A), "star": ("star", A), "plus": ("plus", A), "gather": ("gather", C, A), "pos": ("pos", A), "neg": ("neg", A),
                "gcut": ("group", [Alt([A, ("cut",), B]), Alt([A])]), "plusg": ("plus", ("group", [Alt([A, B])]))}
    nullable = {"opt", "star", "pos", "neg"}
    falsy_ok = {"opt", "star"}
    ops = {"opt": lambda o: ("opt", o), "star": lambda o: ("star", o), "plus": lambda o: ("plus", o), "pos": lambda o: ("pos", o), "neg": lambda o: ("neg", o),
           "gel": lambda o: ("gather", C, o), "gsep": lambda o: ("gather", o, B), "forced": lambda o: ("forced", o), "group": lambda o: ("group", [Alt([o])])}
    rest = Alt([n("r", ("plus", ("group", [Alt([A]), Alt([B]), Alt([C])])))], "('rest', len(r))")
    for on, op in ops.items():
        for dn, d in operands.items():
            if on in ("star", "plus", "gel") and dn in nullable:
                continue
            if on in ("pos", "neg", "forced") and dn in falsy_ok:
                continue
            if on == "forced" and dn not in ("tok", "gseq", "gch", "gcut"):
                continue    # the notation forces quoted TOKENS and groups (visit_Forced, as upstream pegen: anything else is not in the notation)
            if on == "gsep" and dn in ("pos", "neg", "opt", "star"):
                continue    # the generator refuses a separator whose call is not a plain call (AssertionError at generation time: no parser to judge)
            it = op(d)
            if on in ("pos", "neg") or (on == "group" and dn in ("pos", "neg")):
                first = Alt([it, n("t", ("NAME",))], "('L', t)")
            else:
                first = Alt([n("x", it), n("t", ("opt", ("NAME",)))], "('X', x, t)")
            rules = {"top": Rule([first, rest] if on != "forced" else [Alt([C, it, n("t", ("opt", ("NAME",)))], "('F', t)"), rest])}   # forced items cannot be named
            if dn == "rule":
                rules["sub"] = sub
            P[f"op_{on}_{dn}"] = rules
    return P


def random_pool(rng, count):
    P = {}
    toks = [A, B, C]

    def item(depth):
        r = rng.random()
        if depth <= 0 or r < 0.45:
            return rng.choice(toks + [("NAME",)])
        if r < 0.55:
            return ("opt", item(depth - 1))
        if r < 0.65:
            return ("star", rng.choice(toks))
        if r < 0.72:
            return ("plus", rng.choice(toks))
        if r < 0.78:
            return ("gather", rng.choice(toks), rng.choice(toks))
        if r < 0.84:
            return (rng.choice(["pos", "neg"]), rng.choice(toks + [("plus", rng.choice(toks)), ("neg", rng.choice(toks)), ("group", [Alt([rng.choice(toks), rng.choice(toks)])])]))
        if r < 0.92:
            return ("group", [Alt([rng.choice(toks) for _ in range(rng.randint(1, 2))]) for _ in range(rng.randint(1, 2))])
        return ("rule", "sub")

    def alt(tag, depth):
        items = [item(depth) for _ in range(rng.randint(1, 3))]
        if all(i[0] in ("pos", "neg", "opt", "star") for i in items):
            items.append(rng.choice(toks))
        if rng.random() < 0.15:
            items.insert(rng.randint(1, len(items)), ("cut",))
        return Alt(items, f"('{tag}',)")
    for g in range(count):
        rules = {"top": Rule([alt(f"t{i}", 2) for i in range(rng.randint(1, 3))], memo=rng.random() < 0.3),
                 "sub": Rule([alt(f"s{i}", 1) for i in range(rng.randint(1, 2))], memo=rng.random() < 0.5)}
        # no left recursion / nullable repetition by construction: 'sub' never refers to rules
        for a in rules["sub"].alts:
            a.items = [i if i[0] != "rule" else rng.choice(toks) for i in a.items]
        if rng.random() < 0.3:
            rules["top"].alts.insert(0, Alt([n("l", ("rule", "top")), rng.choice(toks)], "('LR', l)"))
        P[f"random{g}"] = rules
    return P


same_value = oracles2.c17_same


def norm(v, model):
    """comparable form of an action value: tokens become their strings"""
    v = conc_copy(v, model)
    if hasattr(v, "_fields") and hasattr(v, "string"):
        return ("tok", v.string)
    if isinstance(v, (list, tuple)):
        return type(v).__name__, [norm(x, model) for x in v]
    return v


def main():
    chk = Check("C17", "model_checking",
                "for each grammar of a pool (every operator of the notation in nesting positions up to depth 2, direct and indirect left recursion, memo flags, "
                "helper-sharing cases, plus seeded random grammars) a parser is generated by the working tree's generator and run on SYMBOLIC token strings "
                "(kinds over a 5-token alphabet, all lengths up to n) together with an independent PEG interpreter on the same proxies; on every joint path both "
                "must agree on success, end position and action value")
    rp = repo()
    chk.assumptions += ["grammars are enumerated / seeded-random (stated as sampled); inputs are solver-decided within the length bound",
                        "reference semantics: PEG with pegen's truthiness convention, cut = commit within the rule's alternatives, seed-growing left recursion (Warth et al.)"]
    pool = systematic_pool()
    pool.update(operator_product())
    pool.update(random_pool(chk.rng, 60 if chk.quick else 300))
    built = []
    for name, g in pool.items():
        text = pegref.render(g)
        try:
            src = pegref.generate(text, REPO)
            ns = exec_generated(src, f"<generated {name}>", symbolic=True)
            ns_real = exec_generated(src, f"<generated {name}>", symbolic=False)
        except Exception as e:  # noqa: BLE001
            chk.engine_errors.append({"grammar": name, "generation-error": repr(e)[:300], "text": text[-400:]})
            continue
        built.append((name, g, text, ns["GeneratedParser"], ns_real["GeneratedParser"]))
    chk.functions |= {"tasks/generator.py:XonshParserGenerator (all visit_* methods reached by the pool)", "pegen/python_generator.py", "pegen/parser_generator.py",
                      "pegen/grammar_parser.py", "subheader.py:Parser runtime combinators (repeated, gathered, seq_alts, lookaheads, memoize, memoize_left_rec)"}
    chk.extra["grammars"] = len(built)
    N = 4 if chk.quick else 5
    R = rp.sym

    def harness_(ex):
        gi = harness.choose_index(ex, "grammar", len(built))
        name, g, text, cls, cls_real = built[gi]
        nt = harness.choose_index(ex, "len", N + 1)
        slots = [levelb.Slot(var=ex.fd(f"k{i}", len(SIG)), sig=SIG) for i in range(nt)]
        st = levelb.Stream(ex, [slots], symbolic_gaps=False)
        rec = {"outcome": "?", "validated": 0, "viol": []}
        # generated parser on the symbolic stream
        tz = R.tokenizer.Tokenizer(st.tokens())
        st.tokenizer = tz
        p = cls(tz)
        try:
            v = p.top()
            got = ("ok", v, int(p._mark())) if v else ("fail",)
            if not v and int(p._mark()) != 0:
                got = ("fail-without-reset", int(p._mark()))
        except SyntaxError:
            got = ("raise",)
        except core.Budget:
            got = ("HANG",)
        except RecursionError:
            got = ("RecursionError",)
        except Exception as e:  # noqa: BLE001
            got = ("EXC:" + type(e).__name__, str(e)[:80])
        # reference interpreter on the same token proxies (WS tokens removed, as the token source does)
        toks = [t for t in st.tokens() if t.type is not R.tokenize.Token.WS]
        try:
            ref = pegref.Interp(g, toks, R.tokenize).run("top")
        except RecursionError:
            ref = ("RecursionError",)
        m = ex.get_model()
        w = " ".join(s.text(m) for s in slots)
        rec["w"] = [name, w]
        gn = (got[0],) + ((norm(got[1], m), got[2]) if got[0] == "ok" else tuple(got[1:]))
        rn = (ref[0],) + ((norm(ref[1], m), ref[2]) if ref[0] == "ok" else ())
        rec["outcome"] = got[0]
        rec["validated"] = 1
        if not same_value(gn, rn):
            # confirm on the unmodified runtime with concrete tokens
            v2 = c17_concrete(rp.real, cls_real, g, w)
            if v2 is not None:
                v2["grammar"] = text[len(pegref.HEADER):]
                rec["viol"].append({"oracle": "c17", "args": [pegref.to_data(g), w], "kwargs": {}, "v": v2})
            else:
                rec.setdefault("inconclusive", []).append({"what": "symbolic disagreement not reproduced concretely", "grammar": name, "w": w, "gen": repr(gn)[:150], "ref": repr(rn)[:150]})
        return rec

    def c17_concrete(X, cls_real, g, w):
        return oracles2.c17(X, pegref.to_data(g), w)
    chk.run(f"B tokens<= {N} x {len(built)} grammars", harness_, f"{len(built)} grammars x all token strings of length 0..{N} over {len(SIG)} token kinds",
            wall=300 if chk.quick else 2400, vacuity=("ok", "fail"))
    chk.finish()


def _plain(v):
    if hasattr(v, "_fields") and hasattr(v, "string"):
        return ("tok", v.string)
    if isinstance(v, (list, tuple)):
        return type(v).__name__, [_plain(x) for x in v]
    return v


if __name__ == "__main__":
    main()
