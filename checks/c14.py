"""C14 — statements parse independently: parse(A+B) = parse(A) then line-shifted parse(B) (DESIGN §2 C14)."""
import ast

from symx import chars, harness, levela, levelb, oracles, seeds
from symx.chars import SymStr, conc_copy
from symx.check import Check, collect_functions
from symx.load import repo

STMT_FORMS = [
    "x = pf'/a{b}'\n", "open(pf'/tmp/{n}')\n", "x = p'/a/' pf'{b}'\n", "$(echo!)\n", "r = ![timeit!]\n", "$(echo -n!)\n", "x = 1\n", "# c\nx = 1\n", "\n\ny = 2\n", "$X = 'a'\n", "del $X\n", "$(ls -l)\n", "![echo hi > f]\n", "x = !(cmd a b)\n", "echo hi\n", "ls -la | grep x\n", "f!(a b, c)\n", "g!()\n", "$(echo! raw  text )\n",
    "with! ctx:\n    body line\n    more\n", "with! ctx as c: one liner\n", "with! ctx:\n    a\n\n    b\n", "p = p'/tmp' / 'x'\n", "q = pf'{x}/y'\n", "x?\n", "y??\n", "a && b\n", "a || b\n",
    "if x:\n    $(ls)\nelse:\n    pass\n", "def f():\n    return $(pwd)\n", "for $I in y:\n    pass\n", "with open(f) as $F:\n    pass\n", "z = `.*`\n", "s = f'{a}' 'b'\n",
    "t = '''a\nb'''\n", "u = (1,\n     2)\n", "v = 1; w = 2\n", "# only a comment\n", "\n", "class A:\n    x = 1\n", "try:\n    a\nexcept E:\n    b\n", "@dec\ndef g(): pass\n",
    "match x:\n    case 1: pass\n", "x = a if b else c\n", "lambda: 0\n", "import os\n", "![a] and ![b]\n", "x = [$A, $(b), `c`, p'd']\n", "f'{$HOME}'\n", "![cd ..]\n", "![x=1 y]\n",
    "print(f!(x))\n", "$(f!(a, b))\n", "with! a:\n  if b:\n    c\n  d\n",
]


def a_product(pairs):
    def harness_(ex):
        rp = repo()
        i = harness.choose_index(ex, "pair", len(pairs))
        a, b, pos = pairs[i]
        ta = harness.text_with_holes(ex, a, [pos], 1) if pos is not None else a
        rec = {"outcome": "?", "validated": 0, "viol": []}
        ka, pa = levela.sym_parse(ta, "exec")
        if ka != "ok":
            rec["outcome"] = "A-rejected"
            rec["w"] = ta.ev(ex.get_model()) if isinstance(ta, SymStr) else ta
            return rec
        # A must still be a complete statement sequence (ends with a newline on this path)
        if isinstance(ta, SymStr):
            if not (ta[-1] == "\n"):
                rec["outcome"] = "A-no-final-newline"
                rec["w"] = ta.ev(ex.get_model())
                return rec
        kb, pb = levela.sym_parse(b, "exec")
        if kb != "ok":
            rec["outcome"] = "B-rejected"
            rec["w"] = b
            return rec
        kab, pab = levela.sym_parse(ta + b, "exec")
        m = ex.get_model()
        wa = ta.ev(m) if isinstance(ta, SymStr) else ta
        rec["w"] = [wa, b]
        rec["outcome"] = "premise-holds"
        bad = None
        if kab != "ok":
            bad = {"kind": "concatenation-rejected", "observed": kab}
        else:
            nl = wa.count("\n")
            want = [oracles.dump(s) for s in conc_copy(pa, m).body] + [oracles.dump(s) for s in oracles._shift(conc_copy(pb, m).body, nl)]
            got = [oracles.dump(s) for s in conc_copy(pab, m).body]
            if want != got:
                bad = {"kind": "body-differs", "observed": "symbolic product"}
        v = oracles.c14(rp.real, wa, b)
        rec["validated"] += 3
        if v is not None:
            rec["viol"].append({"oracle": "c14", "args": [wa, b], "kwargs": {}, "v": v})
        elif bad is not None:
            rec["mismatch"] = {"what": "C14 product", "sym": str(bad), "real": "holds on the witness"}
        return rec
    return harness_


def b_product(n_a, n_b):
    def harness_(ex):
        rp = repo()
        sa = levelb.sym_slots(ex, n_a, name="a")
        sb = levelb.sym_slots(ex, n_b, name="b")
        rec = {"outcome": "?", "validated": 0, "viol": []}
        stA = levelb.Stream(ex, [sa], name="A", symbolic_gaps=False)
        ka, pa = levelb.parse_stream(stA, "exec")
        if ka != "ok":
            rec["outcome"] = "A-rejected"
            return rec
        stB = levelb.Stream(ex, [sb], name="B", symbolic_gaps=False)
        kb, pb = levelb.parse_stream(stB, "exec")
        if kb != "ok":
            rec["outcome"] = "B-rejected"
            return rec
        stAB = levelb.Stream(ex, [sa, sb], name="AB", symbolic_gaps=False)
        kab, pab = levelb.parse_stream(stAB, "exec")
        m = ex.get_model()
        wa, wb = stA.render(m), stB.render(m)
        rec["w"] = [wa, wb]
        # realizable?
        X = rp.real
        for w_, slots in ((wa, sa), (wb, sb)):
            rk, rpl = oracles.run_tokens(X, w_, 2.0)
            real = [(t.type.name, t.string) for t in rpl if t.type.name not in ("WS", "NL", "COMMENT", "NEWLINE", "ENDMARKER", "INDENT", "DEDENT")] if rk == "ok" else None
            if real != [(s.tname(m), s.text(m)) for s in slots]:
                rec["outcome"] = "unrealizable"
                return rec
        rec["outcome"] = "premise-holds"
        v = oracles.c14(X, wa, wb)
        rec["validated"] += 3
        bad = kab != "ok"
        if not bad:
            want = [oracles.dump(s) for s in conc_copy(pa, m).body] + [oracles.dump(s) for s in oracles._shift(conc_copy(pb, m).body, 1)]
            got = [oracles.dump(s) for s in conc_copy(pab, m).body]
            bad = want != got
        if v is not None:
            rec["viol"].append({"oracle": "c14", "args": [wa, wb], "kwargs": {}, "v": v})
        elif bad:
            rec["mismatch"] = {"what": "C14 product(B)", "sym": "differs", "real": "holds on the witness"}
        return rec
    return harness_


def main():
    chk = Check("C14", "model_checking",
                "three-way product execution: parse(A), parse(B) and parse(A+B) run on the same solver variables (A = a statement form with one symbolic "
                "character, or a symbolic token row; B = a statement form or a symbolic token row); on every joint path where A and B are accepted as complete "
                "sequences, body(A+B) must equal body(A) followed by the line-shifted body(B)")
    repo()
    chk.assumptions += ["'complete statement sequence' = accepted alone in exec mode and ending in a newline", "level B stream invariant (rows end in NEWLINE)"]
    collect_functions(chk, lambda: oracles.run_parse(repo().real, "with! ctx:\n    a b\nf!(x, y)\n$(ls)\n", "exec"))
    py, xs, lits = seeds.all_seeds()
    forms = list(dict.fromkeys(STMT_FORMS + [s for s in xs if len(s) < 60]))
    pyf = [s for s in py if len(s) < 80]
    # k=0: all ordered pairs of statement forms (symbolic index only)
    FOLLOW = ["mode = 'w'\n", "ls = $(ls -l)\n", "msg = f'{d}'\n", "x = 1\n", "# c\nx = 1\n", "\n\ny = 2\n", "$(ls)\n", "with! c:\n    d\n", "f!(a, b)\n", "  \nz\n"]
    A = forms if not chk.quick else list(dict.fromkeys(STMT_FORMS + seeds.sample(chk.rng, forms, 10)))
    Bs = (forms + seeds.sample(chk.rng, pyf, 20)) if not chk.quick else FOLLOW + seeds.sample(chk.rng, forms, 4) + seeds.sample(chk.rng, pyf, 2)
    pairs0 = [(a, b, None) for a in A for b in Bs]
    chk.run("A-product k=0 all ordered pairs", a_product(pairs0), f"{len(pairs0)} ordered pairs (A, B) of statement forms", wall=120 if chk.quick else 1500,
            vacuity=("premise-holds",))
    # k=1 in A
    pairs1 = []
    for a in (STMT_FORMS if not chk.quick else seeds.sample(chk.rng, STMT_FORMS, 20)):
        pos = list(range(len(a)))
        if chk.quick and len(pos) > 3:
            pos = chk.rng.sample(pos, 3)
        for b in (seeds.sample(chk.rng, forms, 4) if not chk.quick else seeds.sample(chk.rng, forms, 2)):
            pairs1 += [(a, b, p) for p in pos]
    chk.extra["hole_pairs"] = len(pairs1)
    chk.run("A-product k=1 in A", a_product(pairs1), f"{len(pairs1)} (A, B, position) triples with one symbolic character in A", wall=150 if chk.quick else 2400,
            vacuity=("premise-holds",))
    for na, nb in ((1, 1),) if chk.quick else ((1, 1), (2, 1), (1, 2)):
        chk.run(f"B-product |A|={na} |B|={nb}", b_product(na, nb), f"A and B symbolic token rows of {na} and {nb} tokens over Sigma", wall=200 if chk.quick else 2400,
                vacuity=("premise-holds",))
    chk.finish()


if __name__ == "__main__":
    main()
