"""C09 — the tokenizer agrees with CPython's tokenizer on Python sources (DESIGN §2 C09)."""
import tokenize as pytok

from symx import chars, harness, oracles, relemmas, seeds
from symx.check import Check, collect_functions
from symx.load import repo
from checks.c03 import hole_pairs, holes_textfn
from checks.c08 import LAYOUT_SEEDS

PY_LAYOUT = [
    "x = 0x1F + 0o17 + 0b101 + 1_000 + 1e5 + 1.5E-3 + 5. + .5 + 3j + 1_0.0_1e1_0j\n", "a<<=b>>=c**=d//=e->f:=g!=h<=i>=j==k\n", "a...b .. c\n",
    "if a:\n    b\n        c\n    d\ne\n", "if a:\n\tb\n\t\tc\n  \t# x\nd\n", "if a:\n \x0c b\n", "x = [\n  1,\n\n  # c\n  2]\n", "x = 1 \\\n  + 2\n", "a = 'a' \"b\" '''c\nd''' r'\\n' b'x' Rb'y' u'z'\n",
    "x = 1 # c\n# d\n\n", "a;b;c\n", "@dec\nclass A: pass\n", "x = a @ b\n", "lambda: (yield)\n", "x = 1if a else 2\n", "x = 0_0\n", "1__0\n", "0x\n", "1e\n", "1.e1\n", "a.1\n",
    "é = ñ + 1\n", "x = '\\\n'\n", "x\\\n=1\n", "  \n\n   # c\n", "\x0c\n", "a\tb\n", "def f(a,/,b,*,c):pass\n", "x[1:2,::3]\n", "{**a,'b':1}\n", "a if b else c\n", "not a\n", "~a\n",
]


def regex_lemmas(chk):
    T = repo().real.tokenize
    pairs = [("Number", T.Number, pytok.Number), ("Hexnumber", T.Hexnumber, pytok.Hexnumber), ("Binnumber", T.Binnumber, pytok.Binnumber),
             ("Octnumber", T.Octnumber, pytok.Octnumber), ("Decnumber", T.Decnumber, pytok.Decnumber), ("Floatnumber", T.Floatnumber, pytok.Floatnumber),
             ("Imagnumber", T.Imagnumber, pytok.Imagnumber), ("Exponent", T.Exponent, pytok.Exponent), ("Pointfloat", T.Pointfloat, pytok.Pointfloat),
             ("Comment", T.Comment, pytok.Comment), ("Whitespace", T.Whitespace, pytok.Whitespace.replace("*", "+"))]
    for name, a, b in pairs:
        st, w, dt = relemmas.equal(a, b)
        chk.lemma(f"L({name}_xonsh) == L({name}_cpython)", st, w, round(dt, 3))
        if st == "cex":
            # confirm on the real tokenizers, then report through the concrete oracle
            src = w + "\n"
            v = oracles.c09(repo().real, src)
            if v is not None:
                chk.add_candidate({"oracle": "c09", "args": [src], "kwargs": {}, "v": v})
            else:
                for ctx in ("x = %s\n", "%s\n", "(%s)\n", "x = a%s\n"):
                    v = oracles.c09(repo().real, ctx % w)
                    if v is not None:
                        chk.add_candidate({"oracle": "c09", "args": [ctx % w], "kwargs": {}, "v": v})
                        break
                else:
                    chk.inconclusive.append({"lemma": name, "witness": w, "note": "regex languages differ but no token-level difference reproduced"})
    # string prefixes: every xonsh prefix that is not a CPython prefix contains p/P
    xp = T._all_string_prefixes()
    cp = pytok._all_string_prefixes()
    extra = sorted(p for p in xp if p not in cp and "p" not in p.lower())
    missing = sorted(p for p in cp if p not in xp)
    chk.lemma("StringPrefix_xonsh - StringPrefix_cpython ⊆ {prefixes containing p}", "valid" if not extra else "cex", extra or None)
    chk.lemma("StringPrefix_cpython ⊆ StringPrefix_xonsh", "valid" if not missing else "cex", missing or None)
    for pfx in extra[:3] + missing[:3]:
        src = f"x = {pfx}'a'\n"
        v = oracles.c09(repo().real, src)
        if v is not None:
            chk.add_candidate({"oracle": "c09", "args": [src], "kwargs": {}, "v": v})
    ops_extra = sorted(set(T.OPS) - set(pytok.EXACT_TOKEN_TYPES) - oracles.XONSH_ONLY_OPS)
    ops_missing = sorted(set(pytok.EXACT_TOKEN_TYPES) - set(T.OPS))
    chk.lemma("OPS_xonsh - OPS_cpython ⊆ documented xonsh operators", "valid" if not ops_extra else "cex", ops_extra or None)
    chk.lemma("OPS_cpython ⊆ OPS_xonsh", "valid" if not ops_missing else "cex", ops_missing or None)
    for op in ops_extra[:3] + ops_missing[:3]:
        src = f"a {op} b\n"
        v = oracles.c09(repo().real, src)
        if v is not None:
            chk.add_candidate({"oracle": "c09", "args": [src], "kwargs": {}, "v": v})


def main():
    chk = Check("C09", "model_checking",
                "(i) generate_tokens runs on symbolic characters (symbolic regex matcher); each path's witness is tokenized by CPython's tokenize and the "
                "significant tokens (text, coordinates, NEWLINE/INDENT/DEDENT/ENDMARKER placement) must agree; (ii) unbounded z3 regular-expression lemmas: "
                "the number/comment/whitespace sub-languages of the xonsh tokenizer equal CPython's, extra string prefixes/operators are the documented ones")
    repo()
    L = 2 if chk.quick else 3
    chk.assumptions += ["CPython's C tokenizer is an opaque oracle run on one witness per path",
                        "domain: sources CPython's tokenize accepts; BOM/NUL and multi-line tokens after a non-ASCII character on their first line excluded "
                        "(CPython 3.12.1 reports byte-derived columns there)",
                        "z3 lemmas quantify over all strings (no length bound) but only over the sub-patterns named in the evidence"]
    chk.stubs += ["tokenize._compile -> symbolic regex matcher"]
    collect_functions(chk, lambda: oracles.run_tokens(repo().real, "if a:\n  x = 0x1F + '''c\nd''' # c\n"))
    regex_lemmas(chk)
    from symx import oracles2
    harness.oracles.ORACLES.update({"c09": oracles2.c09})     # same verdicts, plus the f-string features the known findings are keyed by
    o = ("c09",)
    for l in range(1, L + 1):
        for nl in (False, True):
            chk.run(f"A-full tokens L={l}{'+nl' if nl else ''}",
                    harness.A_harness(lambda ex, l=l, nl=nl: chars.sym_text(ex, "c", l) + ("\n" if nl else ""), do_tokens=True, do_parse=False, path_oracles=o),
                    f"all strings over R of length {l}{' + newline' if nl else ''}", vacuity=("ok",))
    py, xs, lits = seeds.all_seeds()
    texts = PY_LAYOUT + [s for s in LAYOUT_SEEDS if "$" not in s and "`" not in s] + py
    if chk.quick:
        texts = PY_LAYOUT + seeds.sample(chk.rng, py, 30)
        pairs = hole_pairs(chk, texts, 5, 140)
    else:
        pairs = hole_pairs(chk, texts, 0, 200)
    chk.extra["hole_positions"] = len(pairs)
    from checks import pycommon
    pycommon.indent_skeleton(chk, o, 4 if chk.quick else 6, pycommon.CORE_OPTS, wall=120 if chk.quick else 1500, tokens_only=True)
    pycommon.indent_skeleton(chk, o, 2 if chk.quick else 3, pycommon.RICH_OPTS, wall=120 if chk.quick else 1500, tokens_only=True, label="rich")
    pycommon.indent_skeleton(chk, o, 3, pycommon.WS_OPTS, wall=120 if chk.quick else 600, tokens_only=True, label="whitespace")
    # concrete layouts: every Python seed and every implicit string concatenation as written, with CRLF line ends, and without the final newline
    from symx import errseeds
    base = list(dict.fromkeys(PY_LAYOUT + py + seeds.concat_product(True, 100 if chk.quick else 1000, chk.rng)))
    if chk.quick:
        base = PY_LAYOUT + seeds.sample(chk.rng, base, 700)
    from checks.c10 import shapes as fstring_shapes
    fs = fstring_shapes(chk.rng, chk.quick)
    base = errseeds.dedent_after() + (fs[:500] if chk.quick else fs[:6000]) + base      # f-strings are tokens too: prefix x quote x literal x field shapes
    lay = [t for s in base for t in (s, s.replace("\n", "\r\n"), s.rstrip("\n"))]
    pycommon.k0_texts(chk, o, lay, "layout variants (LF / CRLF / no final newline) k=0", wall=150 if chk.quick else 900, tokens_only=True)
    chk.run("A-holes k=1", harness.A_harness(holes_textfn(pairs), do_tokens=True, do_parse=False, path_oracles=o),
            f"{len(pairs)} (seed, position) pairs with one symbolic character over Python layout seeds", wall=150 if chk.quick else 1800, vacuity=("ok",))
    if not chk.quick:
        pairs2 = [(s, p) for s in PY_LAYOUT for p in range(len(s) - 1)]

        def tf2(ex):
            i = harness.choose_index(ex, "pair", len(pairs2))
            s, p = pairs2[i]
            return harness.text_with_holes(ex, s, [p], 2)
        chk.run("A-holes k=2 adjacent", harness.A_harness(tf2, do_tokens=True, do_parse=False, path_oracles=o),
                f"{len(pairs2)} positions with two adjacent symbolic characters", wall=1800, vacuity=("ok",))
    chk.finish()


if __name__ == "__main__":
    main()
