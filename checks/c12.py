"""C12 — file and string entry points agree (DESIGN §2 C12)."""
import os
import pathlib
import shutil
import tempfile

from symx import chars, filemodel, harness, levela, oracles, oracles2, seeds
from symx.chars import SymStr, conc_copy
from symx.check import Check, collect_functions
from symx.load import repo
from checks.c03 import hole_pairs
from checks.c11 import LAYOUT_ERR_SEEDS

FILE_SEEDS = ["x = 1\n", "é = 'ü'\n", "x = (1,\n\n 2 3)\n", "x = 1\r\ny = 2\r\n", "x y\r\n", "'''a\nb''' = 1\n", "x = 1", "# c", "if a:\n  b\n c\n", "x = 'é' 5\n",
              "x = (\n'''a\nb'''\n c d)\n", "f!(a, [b)\n", "with! a:\n", "x = '''a\r\nb'''\r\n", "def f():\n\treturn 1\n", "\n\n\nx y\n", "x = [\n  # é\n  1 2]\n", "print('ü') if\n"]
# what only FILES have: coding cookies (PEP 263), shebang lines, a signature - the parser reads UTF-8 whatever they say, at every site
FILE_SEEDS += ["# -*- coding: latin-1 -*-\nmenu = ('caf\xe9' 2)\n", "#!/usr/bin/env xonsh\n# vim: set fileencoding=klingon :\nx = (1 2)\n", "# coding: ascii\nx = '\xe9' y\n",
               "#!/bin/sh\n# -*- coding: utf-8 -*-\n\xe9 = 1 2\n", "\ufeffx = 1\n", "\ufeffx = (1 2)\n", "# coding=cp1252\ns = '\u20ac'\nt = (s s)\n", "#!xonsh\necho hi\nx y\n"]
_TMP = None


def _tmpdir():
    global _TMP
    if _TMP is None or not os.path.isdir(_TMP):
        _TMP = tempfile.mkdtemp(prefix="c12chk_")
    return _TMP


def obs_no_filename(o):
    """observable outcome with the file name field blanked"""
    if o[0] == "ok":
        return o
    if len(o) > 1 and isinstance(o[1], tuple) and len(o[1]) >= 3 and o[0] in ("SyntaxError", "IndentationError"):
        sig = list(o[1])
        sig[2] = "<file>"
        return (o[0], tuple(sig))
    return o


# a lone surrogate cannot be the content of a UTF-8 file: C12's "same content through both entry points" ranges over encodable text
ENCODABLE = frozenset(i for i, c in enumerate(chars.R) if not 0xD800 <= ord(c) <= 0xDFFF)


def product(pairs):
    def harness_(ex):
        rp = repo()
        i = harness.choose_index(ex, "pair", len(pairs))
        seed, pos = pairs[i]
        ins = isinstance(pos, tuple)       # ("ins", p): a character INSERTED before seed[p]
        if ins:
            pos = pos[1]
        content = harness.text_with_holes(ex, seed, [pos], 1, allowed=ENCODABLE, insert=ins) if pos is not None else seed
        rec = {"outcome": "?", "validated": 0, "viol": [], "queries": 0}
        # symbolic product: the loaded parse_string and parse_file (file model) on the same symbolic content
        ks, ps = levela.sym_parse(content, "exec")
        path = filemodel.FakePath("m.py", content)
        R = rp.sym
        try:
            tree = R.parser.XonshParser.parse_file(path)
            kf, pf = ("ok" if tree is not None else "None"), tree
        except Exception as e:  # noqa: BLE001
            kf, pf = levela.classify(e, R), e
        m = ex.get_model()
        w = content.ev(m) if isinstance(content, SymStr) else content
        rec["w"] = w
        rec["outcome"] = f"{ks}/{kf}"
        so = obs_no_filename(levela.observable(ks, conc_copy(ps, m) if ks == "ok" else ps, m if ks != "ok" else None))
        fo = obs_no_filename(levela.observable(kf, conc_copy(pf, m) if kf == "ok" else pf, m if kf != "ok" else None))
        ascii_locale = "locale_enc" in ex.vars and m.eval(ex.vars["locale_enc"][0], model_completion=True).as_long() == 1
        rec["symassert"] = 1
        if so != fo:
            envs = ["C-ascii"] if ascii_locale else ["C.utf8", "C-utf8mode"]
            hit = False
            for env in envs:
                v = oracles2.c12(rp.real, w, env)
                if v is not None:
                    rec["viol"].append({"oracle": "c12", "args": [w, env], "kwargs": {}, "v": v})
                    hit = True
                    break
            if not hit and not ("\r" in w):
                rec.setdefault("inconclusive", []).append({"what": "file model and string run differ, real file agrees", "w": w, "sym_string": str(so)[:200], "sym_file": str(fo)[:200]})
        # the real entry points in this process (real temp file)
        X = rp.real
        p = pathlib.Path(_tmpdir()) / f"m{os.getpid()}.py"
        p.write_bytes(w.encode("utf-8", "surrogatepass"))
        try:
            try:
                t = X.parser.XonshParser.parse_file(p)
                rf = ("ok", oracles.dump(t))
            except Exception as e:  # noqa: BLE001
                rf = (oracles.classify(e, X), oracles.exc_sig(e))
        finally:
            p.unlink()
        rs = levela.observable(*oracles.run_parse(X, w, "exec"))
        rec["validated"] += 2
        if obs_no_filename(rf) != obs_no_filename(rs):
            v = oracles2.c12(X, w, "C.utf8")
            if v is not None:
                rec["viol"].append({"oracle": "c12", "args": [w, "C.utf8"], "kwargs": {}, "v": v})
        return rec
    return harness_


def main():
    chk = Check("C12", "model_checking",
                "product execution of both entry points on the same symbolic file content: the loaded parse_string and the loaded parse_file run on a model of "
                "text-mode open() (decoding by an explicit encoding or by a SYMBOLIC locale encoding in {utf-8, ascii}; universal-newline translation; readline) "
                "and must give the same tree / the same error on every joint path; every disagreement is replayed with a real file in child interpreters started "
                "under LC_ALL=C (ASCII), LC_ALL=C + UTF-8 mode and C.utf8; a sample of witnesses is additionally pushed through all three environments")
    repo()
    chk.assumptions += ["the open() model (symx/filemodel.py) stands for CPython's documented text-mode semantics; Latin-1 is not installed in this sandbox and is not exercised",
                        "'same content' for the string entry point is the untranslated text: differences that vanish once the string is newline-translated are KF-C12-1"]
    chk.stubs += ["open -> symx.filemodel.sym_open in the loaded modules"]
    harness.oracles.ORACLES.update(oracles2.ORACLES)
    collect_functions(chk, lambda: oracles.run_parse(repo().real, "x = 1\n", "exec"))
    chk.functions |= {"subheader.py:Parser.parse_file", "tokenizer.py:Tokenizer.get_lines"}
    py, xs, lits = seeds.all_seeds()
    texts = FILE_SEEDS + LAYOUT_ERR_SEEDS + (seeds.sample(chk.rng, py, 15) + seeds.sample(chk.rng, lits, 15) if chk.quick else py + xs + [t for t in lits if len(t) < 120])
    from symx import errseeds
    span = errseeds.spanning_errors() + errseeds.after_constructs()
    pairs = [(t, None) for t in texts + (seeds.sample(chk.rng, span, 400) if chk.quick else span)] + hole_pairs(chk, texts, 3 if chk.quick else 0, 120)
    # the first character of a FILE is special to text-mode decoding (signature / BOM, shebang, coding cookie): substituted and inserted
    firsts = [t for t in texts if t and len(t) <= 120][: (25 if chk.quick else 400)]
    pairs += [(t, 0) for t in firsts] + [(t, ("ins", 0)) for t in firsts]
    pairs = list(dict.fromkeys(pairs))
    chk.extra["cases"] = len(pairs)
    witnesses = []
    old = chk.on_record

    def collect(r):
        old(r)
        w = r.get("w")
        if isinstance(w, str) and len(witnesses) < 3000:
            witnesses.append(w)
    chk.on_record = collect
    try:
        chk.run("A product parse_string x parse_file(file model)", product(pairs), f"{len(pairs)} file contents (seeds, k=0 and one symbolic character) x symbolic locale encoding",
                wall=200 if chk.quick else 2400, vacuity=("ok/ok", "SyntaxError/SyntaxError"))
    finally:
        chk.on_record = old
        if _TMP:
            shutil.rmtree(_TMP, ignore_errors=True)
    # environment sweep on a sample of witnesses (non-ASCII / CR / no final newline first)
    ws = sorted(set(witnesses), key=lambda w: (w.isascii(), "\r" not in w, w.endswith("\n")))
    ws = [w for w in ws if "\x00" not in w][: (200 if chk.quick else 1500)]
    for env in oracles2.ENVS:
        res, err = oracles2.file_vs_string(ws, env)
        if res is None:
            chk.engine_errors.append({"env": env, "child": err})
            continue
        chk.validated += len(ws)
        for w, (a, b) in zip(ws, res):
            if a != b:
                v = oracles2.c12(repo().real, w, env)
                if v is not None:
                    chk.add_candidate({"oracle": "c12", "args": [w, env], "kwargs": {}, "v": v})
    chk.extra["environment_sweep"] = {"witnesses": len(ws), "environments": list(oracles2.ENVS)}
    chk.finish()


if __name__ == "__main__":
    main()
