"""C07 — macros receive the verbatim source text of their arguments/body (DESIGN §2 C07)."""
import ast

from symx import chars, harness, levela, oracles, oracles2, seeds
from symx.chars import SymStr, conc_copy
from symx.check import Check, collect_functions
from symx.load import repo, REPO

EXTRA_ARGS = ["f'{x},{y}', c", 'a, f"{x},", b', "f'({x})', k", "f'{x:,}', f'{a,b}'", "x", "x, y", " a , b ", "[1, 2], {3: 4}", "'a,b', c", "f(x, y), z", "a b c", "if x: pass", "$HOME, $(ls)", "(1,\n 2), 3", "lambda x, y: 0", "x=1", "*a, **b",
              "'''t,\nu''', v", "a[1:2, 3]", "{1, 2}", "x,", "a,, b", "f!(n, m)", "p'/x', `y`", "@(z)", "1 +", "def", "x y z, w v", "\"q,r\"", "for in", "a ; b", "é, ü",
              "x  ,  y", "\tx\t", "a.b.c(d)[e], f", "not, and", "1e5x, 0x, 08", ":=, ->", "{'k': (1, [2, 3])}, (4,)"]
FSTRING_BODIES = ["{{a}}", "{{ {k}: {v!r} }}", "a{{", "}}b{x}", "{x:{w}}", "{x=}", "{x!r:>5}", "{y[0]}, {z}", "{{", "}}", "{{}}{x}{{}}", "({x}), [{y}]", "{x:,}", "{'q'}", "a,b"]
Q3S, Q3D = "'" * 3, '"' * 3


def fstring_args():
    """macro arguments that are / contain f-strings: doubled braces, nested fields, specs with commas, brackets in literal parts"""
    out = []
    for p, q in (("f", '"'), ("F", "'"), ("rf", Q3D), ("f", Q3S)):
        for b in FSTRING_BODIES:
            if q[0] in b:
                continue
            lit = p + q + b + q
            out += [lit, lit + ", b", "x, " + lit, " " + lit + " "]
            # the same literal INSIDE an open bracket of the argument: its literal pieces (")", "]", "}") must not close that bracket
            out += ["g(" + lit + "), y", "[" + lit + ", a, b], c", "{" + lit + ": 1}", "(" + lit + ",), z"]
    return out


# the macro call in positions where its callee is itself complex: attribute chains, subscripts, calls, OTHER MACRO CALLS before and after it
CHAIN_CONTEXTS = [("g!(q r).", ""), ("", "!(u v)"), ("", ".h!(w, z)"), ("t!(k: v)[0].", ""), ("a[1](2).", "(3)[4]"), ("g!(x)!(y).", "")]
CONTEXTS = [("", ""), ("y = ", " + 1"), ("print(", ", 2)"), ("if x: ", "; z = 3"), ("[", ", f!(k)]"), ("", "\nq = 1"), ("r = ", "\n$(ls)"), ("a.b.", ".c"), ("-", " if t else u")]
BLOCKS = ["    s = \'\'\'a\n    b\n    c\'\'\'\n    y = s\n", '    s = """\nfirst\nsecond\n"""\n', "    t = f\'\'\'a\n    b\n    {c}\'\'\' + 1\n", "    a b\n", "    a\n    b c\n", "    if x:\n        y\n    z\n", "    a\n\n    b\n", "    a\n    # c\n    b\n", "  x\n", "\tx\n", "    a\n\n", "    '''s\nt'''\n",
          "    (1,\n2)\n", "    a; b\n", "        deep\n", "    for i in j:\n        k\n\n        l\n    m\n", "    ls -l | grep x\n    echo $HOME\n", "    x = f!(a, b)\n",
          "    é = 'ü'\n", "    if a:\n      b\n    else:\n      c\n"]
AFTERS = ["", "z = 1\n", "$(ls)\n", "with! q:\n    r\n", "f!(p q)\n", "def g():\n    pass\n"]
SUB_AFTERS = ["", "", "; y = [1, 2]", "\nx = 1", "\nfor i in r:\n    g(i, 2)", "; z = y if y else None\n$(ls -l)"]
SUBS = [("echo", ""), ("make", " "), ("echo", " a  b "), ("bash", " -c x"), ("timeit", " ls -l"), ("echo", "x"), ("e", " $HOME @(1)"), ("echo", " a | b > c"), ("echo", " if for and"), ("x", " 1 +"), ("echo", " é  ü "), ("echo", "\ta\t")]


def test_macro_args():
    out = []
    try:
        tree = ast.parse(open(f"{REPO}/tests/test_call_macros.py", encoding="utf-8").read())
    except (OSError, SyntaxError):
        return out
    for n in ast.walk(tree):
        if isinstance(n, ast.Assign) and isinstance(n.value, ast.List) and n.value.elts and all(isinstance(e, ast.Constant) and isinstance(e.value, str) for e in n.value.elts):
            out += [e.value for e in n.value.elts]
    return out


def generic(cases, build, oracle_name):
    """cases: list of tuples; build(ex, case) -> (symbolic source, callable(model)->oracle args)"""
    def harness_(ex):
        rp = repo()
        ci = harness.choose_index(ex, "case", len(cases))
        src, mkargs = build(ex, cases[ci])
        rec = {"outcome": "?", "validated": 0, "viol": []}
        kind, pl = levela.sym_parse(src, "exec")
        m = ex.get_model()
        w = src.ev(m) if isinstance(src, SymStr) else src
        rec["outcome"] = kind
        X = rp.real
        rk, rpl = oracles.run_parse(X, w, "exec")
        rec["validated"] += 1
        so, ro = levela.observable(kind, conc_copy(pl, m) if kind == "ok" else pl, m if kind != "ok" else None), levela.observable(rk, rpl)
        if so != ro:
            rec["mismatch"] = harness._mm("parse", so, ro)
        args = mkargs(m)
        rec["w"] = args
        v = oracles2.ORACLES[oracle_name](X, *args)
        if v is not None:
            rec["viol"].append({"oracle": oracle_name, "args": list(args), "kwargs": {}, "v": v})
        return rec
    return harness_


def sym_at(ex, text, pos, k):
    return harness.text_with_holes(ex, text, [pos], k) if pos is not None else text


def ev(x, m):
    return x.ev(m) if isinstance(x, SymStr) else x


def main():
    chk = Check("C07", "model_checking",
                "macro call arguments, subprocess-macro rests and with-macro blocks carry symbolic characters and run through the real tokenizer, raw-capture "
                "token source and parser; the string constants handed to call_macro / enter_macro / subproc_* are compared with independent reference models "
                "(bracket- and quote-aware comma splitter, strip, block dedenter) and the code around/after the macro must parse as without it")
    repo()
    chk.assumptions += ["domain of the reference models: balanced brackets, complete string literals, no '#', no backslash; empty / whitespace-only arguments are dropped",
                        "trailing blank lines of a with-macro block are part of the body (pinned by the repo's tests); trailing comment lines are KF-C07-1"]
    collect_functions(chk, lambda: oracles.run_parse(repo().real, "y = f!(a b, [1, 2])\nwith! c:\n    d e\n$(echo! x  y)\n", "exec"))
    harness.oracles.ORACLES.update(oracles2.ORACLES)
    margs = list(dict.fromkeys(test_macro_args() + EXTRA_ARGS + (chk.rng.sample(fstring_args(), 120) if chk.quick else fstring_args())))
    chk.extra["macro_argument_texts"] = len(margs)

    # ---- call macros
    def build_call(ex, case):
        (pre, post), a, pos, k = case
        sa = sym_at(ex, a, pos, k)
        src = SymStr.mk(pre + "f!(") + sa + (")" + post + "\n") if isinstance(sa, SymStr) else pre + "f!(" + sa + ")" + post + "\n"
        return src, lambda m: (pre, ev(sa, m), post)
    cases0 = [(c, a, None, 0) for c in CONTEXTS + CHAIN_CONTEXTS for a in margs]
    chk.run("call-macro k=0", generic(cases0, build_call, "c07_call"), f"{len(margs)} argument texts x {len(CONTEXTS + CHAIN_CONTEXTS)} surrounding contexts", vacuity=("ok",))
    cases1 = [(c, a, p, 1) for a in margs for p in range(len(a)) for c in CONTEXTS[:3]]
    if chk.quick:
        cases1 = chk.rng.sample(cases1, min(len(cases1), 150))
    chk.extra["call_macro_hole_positions"] = len(cases1)
    chk.run("call-macro k=1", generic(cases1, build_call, "c07_call"), f"{len(cases1)} (context, argument text, position) triples with one symbolic character",
            wall=150 if chk.quick else 2400, vacuity=("ok",))
    if not chk.quick:
        cases2 = [(CONTEXTS[1], a, p, 2) for a in EXTRA_ARGS for p in range(len(a) - 1)]
        chk.run("call-macro k=2 adjacent", generic(cases2, build_call, "c07_call"), f"{len(cases2)} positions with two adjacent symbolic characters", wall=2400, vacuity=("ok",))

    # ---- subprocess macros
    def build_sub(ex, case):
        form, (cmd, rest), pos, after = case
        sr = sym_at(ex, rest, pos, 1)
        closer = oracles2.FORMS[form][0]
        src = SymStr.mk(form + cmd + "!") + sr + (closer + after + "\n") if isinstance(sr, SymStr) else form + cmd + "!" + sr + closer + after + "\n"
        return src, lambda m: (form, cmd, ev(sr, m), after)
    cs = [(f, s, p, a) for f in oracles2.FORMS for s in SUBS for p in [None] + list(range(len(s[1]))) for a in SUB_AFTERS]
    if chk.quick:
        k0 = [c for c in cs if c[2] is None]
        cs = k0 + chk.rng.sample([c for c in cs if c[2] is not None], 120)
    # the macro in any position: nested in @$(..) / $(..) / @(..) inside another subprocess, with further words and code behind it
    NEST = [("$(ls @$(", ") -l)\ny = 1"), ("![echo @$(", ") | wc -l]"), ("r = $[cat @$(", ") > out]"), ("$(a $(", ") b)"), ("x = @($(", "))"), ("$(ls @$(", "))"), ("![a && @$(", ") c]; z = 2"),
            ("if c:\n    $(ls @$(", ") -l)\nelse:\n    pass"), ("f($(", "), $(ls -l))")]
    ncs = [(pre, cmd, rest, post) for pre, post in NEST for cmd, rest in SUBS]

    def build_nested(ex, case):
        pre, cmd, rest, post = case
        return pre + cmd + "!" + rest + post + "\n", lambda m: (pre, cmd, rest, post)
    chk.run("subproc-macro nested k=0", generic(ncs, build_nested, "c07_sub_nested"), f"{len(ncs)} (nesting context, command, rest) cases", wall=120 if chk.quick else 600, vacuity=("ok",))
    chk.run("subproc-macro k<=1", generic(cs, build_sub, "c07_sub"), f"{len(cs)} (form, command, rest, position) cases", wall=120 if chk.quick else 1200, vacuity=("ok",))

    # ---- with macros
    def build_with(ex, case):
        block, after, pos = case
        sb = sym_at(ex, block, pos, 1)
        src = SymStr.mk("with! ctx:\n") + sb + after if isinstance(sb, SymStr) else "with! ctx:\n" + sb + after
        return src, lambda m: ("with! ctx:\n", ev(sb, m), after)
    cw = [(b, a, None) for b in BLOCKS for a in AFTERS] + [(b, a, p) for b in BLOCKS for a in AFTERS[:2] for p in range(len(b))]
    if chk.quick:
        cw = [(b, a, None) for b in BLOCKS for a in AFTERS] + chk.rng.sample([c for c in cw if c[2] is not None], 120)
    chk.run("with-macro blocks k<=1", generic(cw, build_with, "c07_with"), f"{len(cw)} (block, following statements, position) cases", wall=150 if chk.quick else 2400,
            vacuity=("ok",))

    def build_with1(ex, case):
        rest, after, pos = case
        sr = sym_at(ex, rest, pos, 1)
        src = SymStr.mk("with! ctx as c:") + sr + ("\n" + after) if isinstance(sr, SymStr) else "with! ctx as c:" + sr + "\n" + after
        return src, lambda m: ("ctx as c", ev(sr, m), after)
    rests = [" s = 1", " x y z", " a; b", " pass", "  two  spaces ", " ls -l | grep $HOME", " f(a, b)", " é"]
    c1 = [(r, a, p) for r in rests for a in AFTERS[:3] for p in [None] + list(range(len(r)))]
    if chk.quick:
        c1 = chk.rng.sample(c1, min(len(c1), 80))
    chk.run("with-macro one-line k<=1", generic(c1, build_with1, "c07_with1"), f"{len(c1)} one-line with-macro cases", wall=100 if chk.quick else 1200, vacuity=("ok",))
    chk.finish()


if __name__ == "__main__":
    main()
