"""C02 — no over-acceptance: text in the Python lexicon that CPython rejects is rejected (DESIGN §2 C02)."""
from symx import harness, seeds
from symx.check import Check, collect_functions
from symx.load import repo
from checks import pycommon
from checks.c03 import cut_textfn


def main():
    chk = Check("C02", "model_checking",
                "the accepted language restricted to the Python lexicon is explored symbolically: all token streams up to length N over the "
                "Python part of Sigma, every single-token substitution of seed programs (the substituted token is a solver variable), every "
                "single-character substitution and every proper prefix; each ACCEPTING path class (every token inspected, hence tight) is "
                "decided by running ast.parse on its witness")
    repo()
    chk.assumptions += ["CPython is an opaque oracle run on one witness per accepting path (classes are tight on accepting paths)",
                        "level B stream invariant; unrealizable streams dropped"]
    collect_functions(chk, lambda: repo().real.parser.XonshParser.parse_string("x = (1 +\n", mode="exec") if False else None)
    chk.functions |= {"parser.py: XonshParser rule methods reached by the streams (see C01)", "subheader.py:Parser.parse", "tokenizer.py:Tokenizer.peek"}
    py, xs, lits = seeds.all_seeds()
    o = ("c02",)
    pycommon.b_full(chk, o, 2 if chk.quick else 3, python_only=True)
    ref = seeds.grammar_programs("reference", 8 if chk.quick else 20, chk.seed)
    chk.extra["reference_grammar_programs"] = len(ref)
    pycommon.k0_texts(chk, o, ref, "reference-grammar derivations k=0", wall=150 if chk.quick else 900, vac=("ok",))
    pycommon.b_holes(chk, o, seeds.sample(chk.rng, ref, 80 if chk.quick else 1500), 2 if chk.quick else 0, wall=120 if chk.quick else 2400, name="B-holes k=1 on reference derivations")
    dels = pycommon.token_deletions(ref + [s for s in py if len(s) < 200])
    pycommon.k0_texts(chk, o, dels, "single-token deletions k=0", wall=150 if chk.quick else 1200, vac=("SyntaxError",))
    cp = seeds.concat_product(True, 200 if chk.quick else 3000, chk.rng) + seeds.literal_product()
    pycommon.k0_texts(chk, o, cp, "string concatenation product k=0", wall=150 if chk.quick else 900, vac=("ok", "SyntaxError"))
    ep = seeds.expr_product()
    pycommon.k0_texts(chk, o, ep, "expression kinds x positions k=0", wall=150 if chk.quick else 900, vac=("ok", "SyntaxError"))
    pycommon.indent_skeleton(chk, o, 5 if chk.quick else 6, pycommon.CORE_OPTS, wall=150 if chk.quick else 1500)
    pycommon.indent_skeleton(chk, o, 2 if chk.quick else 3, pycommon.RICH_OPTS, wall=120 if chk.quick else 1500, label="rich")
    pycommon.indent_skeleton(chk, o, 3, pycommon.WS_OPTS, wall=120 if chk.quick else 600, label="whitespace")
    if chk.quick:
        pycommon.b_holes(chk, o, [s for s in seeds.PY_SNIPPETS if len(s) < 28], 0, wall=150, insert=True, name="B-holes insert k=1")
        pycommon.b_holes(chk, o, seeds.sample(chk.rng, py, 80), 3, wall=120)
        pycommon.a_holes(chk, o, seeds.sample(chk.rng, py, 40) + seeds.sample(chk.rng, lits, 30), 3, wall=100)
        cut_src = [s for s in seeds.sample(chk.rng, py, 40) if len(s) < 120]
    else:
        pycommon.b_holes(chk, o, py, 0, wall=2400)
        pycommon.b_holes(chk, o, py, 0, wall=2400, insert=True, name="B-holes insert k=1")
        pycommon.a_holes(chk, o, py, 0, wall=2400, insert=True, name="A-holes insert k=1")
        pycommon.a_holes(chk, o, py + [t for t in lits if len(t) < 120], 0, wall=2400)
        cut_src = [s for s in py if len(s) < 200]
    tf, ncuts = cut_textfn(cut_src)
    chk.run("A-prefixes", harness.A_harness(tf, path_oracles=o), f"every proper prefix of {len(cut_src)} Python seeds ({ncuts} cuts)",
            wall=100 if chk.quick else 900, vacuity=("SyntaxError",))
    chk.finish()


if __name__ == "__main__":
    main()
