"""C08 — the tokenizer is lossless: tokens tile the source with exact, ordered positions (DESIGN §2 C08)."""
from symx import chars, harness, seeds
from symx.check import Check, collect_functions
from symx.load import repo
from checks.c03 import hole_pairs, holes_textfn

LAYOUT_SEEDS = [
    "x = '''a\nb'''\ny\n", 'x = """a\n\nb""" + 1\n', "if a:\n    b\n\n    c\nd\n", "if a:\n\tb\n        c\n", "x = 1\r\ny = 2\r\n",
    "\x0cx = 1\n", "if a:\n  \x0c  b\n", "x = (1,\n  2,  # c\n\n  3)\n", "x = \\\n   1\n", "x = 'a\\\nb'\n", "é = 'ü' # ñ\n", "x=1",
    "f'{a}b{c!r:>{w}}'\n", "f'''a\n{b}\nc'''\n", "def f():\n    if x:\n        y\n    z\nw\n", "# only comment", "  \n\t\n", "a;b\n",
    "x = `a b`\n", "$(ls -l)\n", "p'/x' + pf'{y}'\n", "a\n  b\n", "if a:\n    b\n  c\n", "'\\''\n", '"\\\\"\n', "x\\\n", "\\\n", "(\n", "'''\n",
    "x = 1 \\\n# c\n", "\ufeffx\n", "a\x00b\n", "class A:\n\n    def f(self):\n        pass\n\n\n\nx\n", "f'{\n1}'\n", "f'{x:{y}}' 'z'\n",
]


def main():
    chk = Check("C08", "model_checking",
                "symbolic execution of generate_tokens on symbolic characters; on every finishing path the tiling predicate (token text == source "
                "slice, ordered, non-overlapping, only indentation/backslash-newline uncovered, NEWLINE/INDENT/DEDENT/ENDMARKER discipline) is "
                "evaluated on the symbolic token list itself (character comparisons decided by z3 under the path condition) and re-evaluated "
                "concretely on the path witness with the unmodified module")
    repo()
    L = 2 if chk.quick else 3
    chk.assumptions += ["representative-character classes (see C03)", "StringIO.readline splits at '\\n' only"]
    chk.stubs += ["tokenize._compile -> symbolic regex matcher", "io.StringIO(proxy) -> line splitter"]
    collect_functions(chk, lambda: harness.oracles.run_tokens(repo().real, "if a:\n  x = f'{b}' + '''c\nd'''\n"))
    for l in range(1, L + 1):
        for nl in (False, True):
            chk.run(f"A-full tokens L={l}{'+nl' if nl else ''}",
                    harness.A_harness(lambda ex, l=l, nl=nl: chars.sym_text(ex, "c", l) + ("\n" if nl else ""), do_tokens=True, do_parse=False,
                                      sym_tiling=True, path_oracles=("c08",)),
                    f"all strings over R of length {l}{' followed by a newline' if nl else ''}", vacuity=("ok",))
    from checks import pycommon
    pycommon.indent_skeleton(chk, ("c08",), 4 if chk.quick else 5, pycommon.CORE_OPTS, wall=120 if chk.quick else 1200, tokens_only=True)
    pycommon.indent_skeleton(chk, ("c08",), 2 if chk.quick else 3, pycommon.RICH_OPTS, wall=120 if chk.quick else 1200, tokens_only=True, label="rich")
    py, xs, lits = seeds.all_seeds()
    texts = LAYOUT_SEEDS + xs + py
    if chk.quick:
        texts = LAYOUT_SEEDS + seeds.sample(chk.rng, xs, 15) + seeds.sample(chk.rng, py, 15)
        pairs = hole_pairs(chk, texts, 5, 120)
    else:
        pairs = hole_pairs(chk, texts, 0, 200)
    chk.extra["hole_positions"] = len(pairs)
    chk.run("A-holes k=1", harness.A_harness(holes_textfn(pairs), do_tokens=True, do_parse=False, sym_tiling=True, path_oracles=("c08",)),
            f"{len(pairs)} (seed, position) pairs with one symbolic character; seeds include multi-line strings, f-strings, CRLF, tabs, form feeds, non-ASCII",
            wall=150 if chk.quick else 1500, vacuity=("ok",))
    if not chk.quick:
        pairs2 = [(s, p) for s in LAYOUT_SEEDS for p in range(len(s) - 1)]

        def tf2(ex):
            i = harness.choose_index(ex, "pair", len(pairs2))
            s, p = pairs2[i]
            return harness.text_with_holes(ex, s, [p], 2)
        chk.run("A-holes k=2 adjacent", harness.A_harness(tf2, do_tokens=True, do_parse=False, sym_tiling=True, path_oracles=("c08",)),
                f"{len(pairs2)} positions of the layout seeds with two adjacent symbolic characters", wall=1500, vacuity=("ok",))
    chk.finish()


if __name__ == "__main__":
    main()
