"""C04 — every returned tree is a well-formed, compilable CPython AST (DESIGN §2 C04)."""
from symx import chars, harness, levelb, seeds
from symx.check import Check, collect_functions
from symx.load import repo
from checks import pycommon


def main():
    chk = Check("C04", "model_checking",
                "on every ACCEPTING path of the symbolic explorations (Python and xonsh kinds: all streams up to length N over Sigma, seeds with one "
                "symbolic token or character) the returned tree is walked by a reference context/shape walker and handed to compile(); tree shape is "
                "constant on a path, so the verdict holds for the path class")
    repo()
    chk.assumptions += ["compile() is an opaque oracle run on the witness tree of each accepting path",
                        "SyntaxError from compile() is allowed only if compiling ast.unparse(tree) fails with the same message"]
    collect_functions(chk, lambda: repo().real.parser.XonshParser.parse_string("$X = $(ls @(a) $HOME) if p'/' else f!(x y)\n", mode="exec"))
    py, xs, lits = seeds.all_seeds()
    o = ("c04",)
    pycommon.b_full(chk, o, 2 if chk.quick else 3, python_only=False, vac=("ok",))
    xg = seeds.grammar_programs("xonsh", 3 if chk.quick else 8, chk.seed)
    chk.extra["xonsh_grammar_programs"] = len(xg)
    pycommon.k0_texts(chk, o, xg, "xonsh.gram derivations k=0", wall=150 if chk.quick else 900)
    cp = seeds.concat_product(False, 200 if chk.quick else 3000, chk.rng) + seeds.literal_product()
    pycommon.k0_texts(chk, o, cp, "string concatenation product (all kinds) k=0", wall=150 if chk.quick else 900)
    ep = seeds.expr_product()
    pycommon.k0_texts(chk, o, ep + xs, "expression kinds x positions + xonsh forms k=0", wall=150 if chk.quick else 900)
    if chk.quick:
        pycommon.b_holes(chk, o, seeds.sample(chk.rng, py, 40) + seeds.sample(chk.rng, xs, 50), 3, python_only=False, wall=120, vac=("ok",), symbolic_gaps=False)
        pycommon.a_holes(chk, o, seeds.sample(chk.rng, xs, 50) + seeds.sample(chk.rng, py, 20), 3, wall=100, vac=("ok",))
    else:
        pycommon.b_holes(chk, o, py + xs, 0, python_only=False, wall=2400, vac=("ok",), symbolic_gaps=False)
        pycommon.a_holes(chk, o, xs + py, 0, wall=2400, vac=("ok",))
    chk.finish()


if __name__ == "__main__":
    main()
